#!/usr/bin/env python3
# Merge the evidence of the plain and the race build of C10 into one file.
import json, sys
plain, race, out = sys.argv[1:4]
p = json.load(open(plain))
try:
    r = json.load(open(race))
except Exception as e:
    r = None
if r:
    c = p["coverage"]; rc = r["coverage"]
    c["race_build"] = {k: rc.get(k) for k in ("runs", "evaluations", "distinct_nontrivial", "distinct_interleavings", "fault_counts", "probes", "counters", "maxima", "runs_per_hour", "workers", "samples")}
    c["race_build"]["wall_s"] = r["wall_s"]
    c["race_build"]["violations"] = r.get("violations", 0)
    c["evaluations"] = c["evaluations"] + rc["evaluations"]
    c["distinct_nontrivial"] = c["distinct_nontrivial"] + rc["distinct_nontrivial"]
    c["builds"] = ["plain (value oracles, frozen memory)", "race (-race, invisible baton, park-and-sweep)"]
    p["wall_s"] = p["wall_s"] + r["wall_s"]
    p["violations"] = p.get("violations", 0) + r.get("violations", 0)
json.dump(p, open(out, "w"), indent=1)
