package gen

import (
	"encoding/binary"

	vs "github.com/peterstace/simplefeatures/verifsim"
)

// field is one structural element of an encoded record, found by the
// harness's own scanners (never by the library's parsers).
type Field struct {
	Off, N int
	Kind   string // bo | type | count | ord | typeprec | meta | ext | size | bbox | id | delta
	Big    bool   // WKB: field is big-endian
}

// scanWKB walks a syntactically valid WKB and lists its fields. It returns
// nil if the bytes are not a well-formed WKB (then faults fall back to blind
// positions).
func ScanWKB(b []byte) []Field {
	var fs []Field
	var walk func(off int, depth int) int
	walk = func(off int, depth int) int {
		if off < 0 || off+5 > len(b) || depth > 64 {
			return -1
		}
		big := b[off] == 0
		if b[off] > 1 {
			return -1
		}
		u32 := func(o int) uint32 {
			if big {
				return binary.BigEndian.Uint32(b[o:])
			}
			return binary.LittleEndian.Uint32(b[o:])
		}
		fs = append(fs, Field{off, 1, "bo", big}, Field{off + 1, 4, "type", big})
		code := u32(off + 1)
		gt := code % 1000
		dim := 2
		switch code / 1000 {
		case 1, 2:
			dim = 3
		case 3:
			dim = 4
		}
		off += 5
		ords := func(n int) bool {
			for i := 0; i < n; i++ {
				if off+8 > len(b) {
					return false
				}
				fs = append(fs, Field{off, 8, "ord", big})
				off += 8
			}
			return true
		}
		count := func() (int, bool) {
			if off+4 > len(b) {
				return 0, false
			}
			fs = append(fs, Field{off, 4, "count", big})
			n := int(u32(off))
			off += 4
			if n > len(b) {
				return 0, false
			}
			return n, true
		}
		switch gt {
		case 1:
			if !ords(dim) {
				return -1
			}
		case 2:
			n, ok := count()
			if !ok || !ords(n*dim) {
				return -1
			}
		case 3:
			n, ok := count()
			if !ok {
				return -1
			}
			for i := 0; i < n; i++ {
				m, ok := count()
				if !ok || !ords(m*dim) {
					return -1
				}
			}
		case 4, 5, 6, 7:
			n, ok := count()
			if !ok {
				return -1
			}
			for i := 0; i < n; i++ {
				off = walk(off, depth+1)
				if off < 0 {
					return -1
				}
			}
		default:
			return -1
		}
		return off
	}
	if walk(0, 0) < 0 {
		return nil
	}
	return fs
}

// FlipEndian rewrites a little-endian WKB as big-endian (all nested
// geometries, or a seeded subset of them: mixed-endian, as some producers emit).
func FlipEndian(rec []byte, fields []Field, mixed bool, m *vs.Stream) []byte {
	out := append([]byte(nil), rec...)
	flip := false
	for _, f := range fields {
		if f.Kind == "bo" {
			flip = !mixed || m.Intn(2, "mix") == 1
			if flip {
				out[f.Off] ^= 1
			}
			continue
		}
		if flip {
			for i, j := f.Off, f.Off+f.N-1; i < j; i, j = i+1, j-1 {
				out[i], out[j] = out[j], out[i]
			}
		}
	}
	return out
}
