package gen

import (
	"math"

	"github.com/peterstace/simplefeatures/geom"
)

type seg struct{ ax, ay, bx, by float64 }

// collect gathers every segment and every isolated point of g.
func collect(g geom.Geometry, segs *[]seg, pts *[][2]float64) {
	addSeq := func(s geom.Sequence) {
		n := s.Length()
		for i := 0; i+1 < n; i++ {
			a, b := s.GetXY(i), s.GetXY(i+1)
			if a != b {
				*segs = append(*segs, seg{a.X, a.Y, b.X, b.Y})
			}
		}
		if n == 1 {
			a := s.GetXY(0)
			*pts = append(*pts, [2]float64{a.X, a.Y})
		}
	}
	switch g.Type() {
	case geom.TypePoint:
		if xy, ok := g.MustAsPoint().XY(); ok {
			*pts = append(*pts, [2]float64{xy.X, xy.Y})
		}
	case geom.TypeLineString:
		addSeq(g.MustAsLineString().Coordinates())
	case geom.TypePolygon:
		for _, r := range g.MustAsPolygon().DumpRings() {
			addSeq(r.Coordinates())
		}
	case geom.TypeMultiPoint:
		mp := g.MustAsMultiPoint()
		for i := 0; i < mp.NumPoints(); i++ {
			if xy, ok := mp.PointN(i).XY(); ok {
				*pts = append(*pts, [2]float64{xy.X, xy.Y})
			}
		}
	case geom.TypeMultiLineString:
		m := g.MustAsMultiLineString()
		for i := 0; i < m.NumLineStrings(); i++ {
			addSeq(m.LineStringN(i).Coordinates())
		}
	case geom.TypeMultiPolygon:
		m := g.MustAsMultiPolygon()
		for i := 0; i < m.NumPolygons(); i++ {
			for _, r := range m.PolygonN(i).DumpRings() {
				addSeq(r.Coordinates())
			}
		}
	case geom.TypeGeometryCollection:
		c := g.MustAsGeometryCollection()
		for i := 0; i < c.NumGeometries(); i++ {
			collect(c.GeometryN(i), segs, pts)
		}
	}
}

func distPointSeg(px, py float64, s seg) float64 {
	dx, dy := s.bx-s.ax, s.by-s.ay
	l2 := dx*dx + dy*dy
	t := ((px-s.ax)*dx + (py-s.ay)*dy) / l2
	if t < 0 {
		t = 0
	} else if t > 1 {
		t = 1
	}
	cx, cy := s.ax+t*dx, s.ay+t*dy
	return math.Hypot(px-cx, py-cy)
}

// ClearanceOK reports whether the arrangement formed by all segments and
// points of the geometries is in general position with clearance at least
// rel*magnitude between every arrangement vertex (input vertices, isolated
// points and crossing points) and every edge that is not incident to it.
//
// The test is conservative rather than exact-rational: distances are
// evaluated in float64 (relative error ~1e-15, ten orders of magnitude below
// the 1e-6 threshold) and a configuration is rejected as soon as any distance
// falls below TWICE the threshold, so that every accepted pool provably meets
// the stated clearance. Exact coincidences (a vertex shared by two parts is
// the same float pair) count as incidence; a vertex exactly inside another
// edge, collinear overlaps and touching rings are rejected — they belong to
// the lattice class, not to this one.
func ClearanceOK(gs []geom.Geometry, rel float64) bool {
	var segs []seg
	var pts [][2]float64
	for _, g := range gs {
		collect(g, &segs, &pts)
	}
	if len(segs) > 400 {
		return false
	}
	mag := 0.0
	for _, s := range segs {
		mag = math.Max(mag, math.Max(math.Max(math.Abs(s.ax), math.Abs(s.ay)), math.Max(math.Abs(s.bx), math.Abs(s.by))))
	}
	for _, p := range pts {
		mag = math.Max(mag, math.Max(math.Abs(p[0]), math.Abs(p[1])))
	}
	thr := 2 * rel * mag
	if thr == 0 {
		return true
	}
	type vert struct {
		x, y   float64
		s1, s2 int // segments a crossing point lies on (-1: none)
	}
	var vs []vert
	for _, s := range segs {
		vs = append(vs, vert{s.ax, s.ay, -1, -1}, vert{s.bx, s.by, -1, -1})
	}
	for _, p := range pts {
		vs = append(vs, vert{p[0], p[1], -1, -1})
	}
	// crossing points
	for i := 0; i < len(segs); i++ {
		for j := i + 1; j < len(segs); j++ {
			a, b := segs[i], segs[j]
			d1x, d1y := a.bx-a.ax, a.by-a.ay
			d2x, d2y := b.bx-b.ax, b.by-b.ay
			den := d1x*d2y - d1y*d2x
			if den == 0 {
				continue // parallel: overlap, if any, is caught by the endpoint distances
			}
			t := ((b.ax-a.ax)*d2y - (b.ay-a.ay)*d2x) / den
			u := ((b.ax-a.ax)*d1y - (b.ay-a.ay)*d1x) / den
			if t > 0 && t < 1 && u > 0 && u < 1 {
				vs = append(vs, vert{a.ax + t*d1x, a.ay + t*d1y, i, j})
			}
		}
	}
	for _, v := range vs {
		for si, s := range segs {
			if si == v.s1 || si == v.s2 {
				continue
			}
			if (v.x == s.ax && v.y == s.ay) || (v.x == s.bx && v.y == s.by) {
				continue // incident by identity
			}
			if distPointSeg(v.x, v.y, s) < thr {
				return false
			}
		}
	}
	// distinct vertices must not be closer than the threshold either
	for i := 0; i < len(vs); i++ {
		for j := i + 1; j < len(vs); j++ {
			dx, dy := vs[i].x-vs[j].x, vs[i].y-vs[j].y
			if (dx != 0 || dy != 0) && math.Hypot(dx, dy) < thr {
				return false
			}
		}
	}
	return true
}
