package gen

import (
	"fmt"
	"strings"

	vs "github.com/peterstace/simplefeatures/verifsim"
)

// Grammar-generated documents: syntactically plausible WKT / GeoJSON whose
// structure, dimensionality and numbers are drawn freely (mixed position
// arities inside one document, short and over-long positions, empty members
// at every level, nested collections), i.e. documents no real encoder emits.

var gNumbers = []string{"0", "1", "2", "-1", "3.5", "1e2", "-0", "0.1", "10", "7", "1e-7", "123456789.125", "1e308", "-1e308", "5e-324"}

func gNum(s *vs.Stream) string { return gNumbers[s.Intn(len(gNumbers), "g/num")] }

// docArity is the per-document position arity (0: mix freely). Real documents
// are consistent, with the occasional empty position; both styles are drawn.
var docArity int

func gArity(s *vs.Stream) int {
	if docArity > 0 {
		if s.Intn(6, "g/emptypos") == 5 {
			return 0
		}
		return docArity
	}
	switch c := s.Intn(20, "g/arity"); {
	case c < 10:
		return 2
	case c < 15:
		return 3
	case c < 17:
		return 4
	case c == 17:
		return 0
	case c == 18:
		return 1
	}
	return 5
}

func gPos(s *vs.Stream) string {
	n := gArity(s)
	p := make([]string, n)
	for i := range p {
		p[i] = gNum(s)
	}
	return "[" + strings.Join(p, ",") + "]"
}

func gList(s *vs.Stream, max int, item func() string) string {
	n := s.Intn(max+1, "g/n")
	it := make([]string, n)
	for i := range it {
		it[i] = item()
	}
	return "[" + strings.Join(it, ",") + "]"
}

func gRingJSON(s *vs.Stream) string {
	// mostly closed small rings
	if s.Intn(3, "g/ringkind") > 0 {
		a, b := gPos(s), gPos(s)
		return "[" + a + "," + b + "," + gPos(s) + "," + a + "]"
	}
	return gList(s, 5, func() string { return gPos(s) })
}

var gTypes = []string{"Point", "LineString", "Polygon", "MultiPoint", "MultiLineString", "MultiPolygon", "GeometryCollection"}

// GrammarGeoJSON draws one document.
func GrammarGeoJSON(s *vs.Stream, depth int) string {
	docArity = []int{0, 0, 2, 3, 3, 4}[s.Intn(6, "g/docarity")]
	defer func() { docArity = 0 }()
	return grammarGeoJSON(s, depth)
}

func grammarGeoJSON(s *vs.Stream, depth int) string {
	nt := 7
	if depth <= 0 {
		nt = 6
	}
	t := s.Intn(nt, "g/type")
	var coords string
	switch t {
	case 0:
		coords = gPos(s)
	case 1, 3:
		coords = gList(s, 4, func() string { return gPos(s) })
	case 2, 4:
		if t == 2 {
			coords = gList(s, 3, func() string { return gRingJSON(s) })
		} else {
			coords = gList(s, 3, func() string { return gList(s, 4, func() string { return gPos(s) }) })
		}
	case 5:
		coords = gList(s, 3, func() string { return gList(s, 2, func() string { return gRingJSON(s) }) })
	default:
		return fmt.Sprintf(`{"type":"GeometryCollection","geometries":%s}`, gList(s, 4, func() string {
			if s.Intn(12, "g/oddmember") == 11 {
				return []string{"null", "[]", "5", `"x"`, "{}", "true"}[s.Intn(6, "g/odd")]
			}
			return grammarGeoJSON(s, depth-1)
		}))
	}
	extra := ""
	switch s.Intn(8, "g/extra") {
	case 5:
		extra = `,"bbox":[0,0,1,1]`
	case 6:
		extra = `,"crs":null`
	case 7:
		extra = `,"coordinates":[]`
	}
	return fmt.Sprintf(`{"type":%q,"coordinates":%s%s}`, gTypes[t], coords, extra)
}

func gPtWKT(s *vs.Stream, dims int) string {
	if s.Intn(12, "g/dimslip") == 11 {
		dims = 1 + s.Intn(5, "g/dims")
	}
	p := make([]string, dims)
	for i := range p {
		p[i] = gNum(s)
	}
	return strings.Join(p, " ")
}

func gParen(s *vs.Stream, max int, item func() string) string {
	n := s.Intn(max+1, "g/n")
	if n == 0 && s.Intn(2, "g/empty") == 0 {
		return "EMPTY"
	}
	it := make([]string, n)
	for i := range it {
		it[i] = item()
	}
	return "(" + strings.Join(it, ",") + ")"
}

var gWKTTypes = []string{"POINT", "LINESTRING", "POLYGON", "MULTIPOINT", "MULTILINESTRING", "MULTIPOLYGON", "GEOMETRYCOLLECTION"}

func GrammarWKT(s *vs.Stream, depth int) string {
	nt := 7
	if depth <= 0 {
		nt = 6
	}
	t := s.Intn(nt, "g/type")
	tag, dims := "", 2
	switch s.Intn(6, "g/tag") {
	case 3:
		tag, dims = " Z", 3
	case 4:
		tag, dims = " M", 3
	case 5:
		tag, dims = " ZM", 4
	}
	if s.Intn(10, "g/tagslip") == 9 {
		dims = 2 + s.Intn(3, "g/dims")
	}
	pt := func() string { return gPtWKT(s, dims) }
	ring := func() string {
		a := pt()
		if s.Intn(3, "g/ringkind") > 0 {
			return "(" + a + "," + pt() + "," + pt() + "," + a + ")"
		}
		return gParen(s, 5, pt)
	}
	head := gWKTTypes[t] + tag
	switch t {
	case 0:
		if s.Intn(6, "g/empty") == 5 {
			return head + " EMPTY"
		}
		return head + "(" + pt() + ")"
	case 1:
		return head + gParen(s, 5, pt)
	case 2:
		return head + gParen(s, 3, ring)
	case 3:
		return head + gParen(s, 4, func() string {
			switch s.Intn(3, "g/mpstyle") {
			case 0:
				return pt()
			case 1:
				return "EMPTY"
			}
			return "(" + pt() + ")"
		})
	case 4:
		return head + gParen(s, 3, func() string { return gParen(s, 4, pt) })
	case 5:
		return head + gParen(s, 3, func() string { return gParen(s, 2, ring) })
	}
	return head + gParen(s, 4, func() string { return GrammarWKT(s, depth-1) })
}

// GrammarFeature draws a GeoJSON Feature document whose members are
// independently well- or ill-formed (several faults can coincide: a decoder
// that reports "the first" one must not let map iteration order decide which).
func GrammarFeature(s *vs.Stream) string {
	typ := []string{`"Feature"`, `"Feature"`, `"Feature"`, `"feature"`, `"FeatureCollection"`, `7`, `null`}[s.Intn(7, "gf/type")]
	var g string
	switch s.Intn(6, "gf/geom") {
	case 0:
		g = "null"
	case 1:
		g = `{"type":"Nope","coordinates":[1,2]}`
	case 2:
		g = `5`
	default:
		g = GrammarGeoJSON(s, 1)
	}
	props := []string{`{}`, `null`, `{"a":1,"b":{"c":[1,2]}}`, `3`, `"x"`, `[]`}[s.Intn(6, "gf/props")]
	id := []string{``, `,"id":1`, `,"id":"a"`, `,"id":{}`, `,"id":null`}[s.Intn(5, "gf/id")]
	extra := []string{``, `,"bbox":[0,0,1,1]`, `,"foo":{"bar":1}`, `,"type2":1,"zz":[1]`}[s.Intn(4, "gf/extra")]
	parts := []string{`"type":` + typ, `"geometry":` + g, `"properties":` + props}
	// member order is drawn too; a member may be missing
	if s.Intn(8, "gf/drop") == 7 {
		parts = parts[:2]
	}
	k := s.Intn(len(parts), "gf/rot")
	parts = append(parts[k:], parts[:k]...)
	return "{" + strings.Join(parts, ",") + id + extra + "}"
}
