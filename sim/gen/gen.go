// Package gen builds seeded geometries for the C08 corpus and the C10 operand
// pool (DESIGN.md B.8). Everything is drawn from a verifsim.Stream, so a
// geometry is a pure function of the choice trace.
package gen

import (
	"math"
	"sort"

	"github.com/peterstace/simplefeatures/geom"
	vs "github.com/peterstace/simplefeatures/verifsim"
)

// Lattice maps small integers to coordinates. Both operands of a binary
// operation share one lattice so that shared vertices, collinear overlaps
// and touching rings are the common case.
type Lattice struct {
	Side int
	Unit float64
	OffX float64
	OffY float64
	// Tab, if non-nil, replaces i*Unit+Off by a monotone table of "wild"
	// floats (subnormal, huge, 17-digit): used for C08 records.
	TabX, TabY []float64
}

func (l Lattice) X(i int) float64 {
	if l.TabX != nil {
		return l.TabX[clampIdx(i, len(l.TabX))]
	}
	return float64(i)*l.Unit + l.OffX
}

func (l Lattice) Y(i int) float64 {
	if l.TabY != nil {
		return l.TabY[clampIdx(i, len(l.TabY))]
	}
	return float64(i)*l.Unit + l.OffY
}

func clampIdx(i, n int) int {
	if i < 0 {
		return 0
	}
	if i >= n {
		return n - 1
	}
	return i
}

// NewLattice draws a lattice with |c| <= 2^10.
func NewLattice(s *vs.Stream) Lattice {
	sides := []int{4, 6, 8, 12, 16}
	units := []float64{1, 2, 8, 64, 0.5, 0.125}
	l := Lattice{Side: sides[s.Intn(len(sides), "lat/side")], Unit: units[s.Intn(len(units), "lat/unit")]}
	for float64(l.Side)*l.Unit*3.25 > 1024 {
		l.Unit /= 2 // multipolygon members are shifted by up to 2*Side+2 cells: stay within |c| <= 2^10
	}
	span := float64(l.Side) * l.Unit
	if s.Intn(2, "lat/off") == 1 {
		l.OffX = -math.Floor(span/2/l.Unit) * l.Unit
		l.OffY = l.OffX
	}
	return l
}

// WildLattice draws a lattice whose coordinates come from all float64
// classes while staying strictly increasing (so shapes keep their topology).
func WildLattice(s *vs.Stream, side int) Lattice {
	mk := func() []float64 {
		t := make([]float64, side+1)
		switch s.Intn(5, "wild/class") {
		case 0: // subnormal steps
			for i := range t {
				t[i] = float64(i) * 5e-324 * float64(1+s.Intn(1000, "w"))
			}
			sort.Float64s(t)
			for i := 1; i < len(t); i++ {
				if t[i] <= t[i-1] {
					t[i] = math.Nextafter(t[i-1], math.Inf(1))
				}
			}
		case 1: // huge
			for i := range t {
				t[i] = (float64(i) - float64(side)/2) * 1e300 / float64(side)
			}
		case 2: // 17 significant digits
			base := float64(s.Intn(1000, "w")) + 0.1234567890123456
			for i := range t {
				t[i] = base + float64(i)*0.30000000000000004
			}
		case 3: // around zero with -0
			for i := range t {
				t[i] = float64(i - side/2)
			}
			t[clampIdx(side/2, len(t))] = math.Copysign(0, -1)
		default: // tiny relative steps at large magnitude
			v := 1e15
			for i := range t {
				t[i] = v
				v = math.Nextafter(v, math.Inf(1))
			}
		}
		return t
	}
	return Lattice{Side: side, Unit: 1, TabX: mk(), TabY: mk()}
}

// Cfg controls generation.
type Cfg struct {
	MaxPts    int  // vertices per linear component (>= 4)
	MaxParts  int  // members per multi geometry / collection
	Depth     int  // GeometryCollection nesting depth
	CTypes    bool // draw Z/M variants (otherwise XY only)
	WildZM    bool // Z/M from all float classes including NaN/Inf
	Empties   bool // allow empty geometries and empty members
	Invalid   bool // allow constructions that violate OGC validity
	Alloc     func(n int) []float64
	ForceType int // 0 = draw; otherwise 1+geom.GeometryType
	// Jitter > 0 moves every vertex off the lattice by a seeded amount of up
	// to Jitter lattice units in each direction: the general-position class.
	Jitter float64
	// SpareCap gives some sequences unused capacity after their last ordinate.
	SpareCap bool
	// AlwaysLong makes every linear component use at least 2/3 of MaxPts vertices.
	AlwaysLong bool
}

func (c *Cfg) alloc(n int) []float64 {
	if c.Alloc != nil {
		return c.Alloc(n)
	}
	return make([]float64, n)
}

// Gen holds per-geometry generation state.
type Gen struct {
	S   *vs.Stream
	Lat Lattice
	Cfg Cfg
	CT  geom.CoordinatesType
}

func (g *Gen) zm() float64 {
	s := g.S
	if g.Cfg.WildZM {
		switch s.Intn(10, "zm/class") {
		case 0:
			return math.NaN()
		case 1:
			return math.Inf(1)
		case 2:
			return math.Inf(-1)
		case 3:
			return 5e-324
		case 4:
			return -1.7976931348623157e308
		case 5:
			return math.Copysign(0, -1)
		case 6:
			return 0.1234567890123456789
		}
	}
	return float64(s.Intn(41, "zm") - 20)
}

func (g *Gen) jit() float64 {
	if g.Cfg.Jitter <= 0 {
		return 0
	}
	return (float64(g.S.Intn(1<<20, "jit"))/float64(1<<20) - 0.5) * 2 * g.Cfg.Jitter * g.Lat.Unit
}

// seq builds a Sequence from lattice points.
func (g *Gen) seq(pts [][2]int) geom.Sequence {
	d := g.CT.Dimension()
	// Some sequences get spare capacity behind their last coordinate (as a
	// WKT-parsed LineString or a Sequence.Slice has): an operation that
	// appends in place onto an operand's storage then writes into it.
	spare := 0
	if g.Cfg.SpareCap && g.S.Intn(2, "seq/spare") == 1 {
		spare = 1 + g.S.Intn(8, "seq/sparen")
	}
	fs := g.Cfg.alloc(len(pts)*d + spare)[: len(pts)*d : len(pts)*d+spare]
	for i, p := range pts {
		if g.Cfg.Jitter > 0 && i > 0 && i == len(pts)-1 && p == pts[0] {
			copy(fs[i*d:i*d+2], fs[0:2]) // closing vertex of a ring: same floats as the first
		} else {
			fs[i*d] = g.Lat.X(p[0]) + g.jit()
			fs[i*d+1] = g.Lat.Y(p[1]) + g.jit()
		}
		for k := 2; k < d; k++ {
			fs[i*d+k] = g.zm()
		}
	}
	return geom.NewSequence(fs, g.CT)
}

func (g *Gen) pt() [2]int {
	return [2]int{g.S.Intn(g.Lat.Side+1, "px"), g.S.Intn(g.Lat.Side+1, "py")}
}

func (g *Gen) point() geom.Point {
	if g.Cfg.Empties && g.S.Intn(8, "pt/empty") == 7 {
		return geom.NewEmptyPoint(g.CT)
	}
	p := g.pt()
	c := geom.Coordinates{Type: g.CT, XY: geom.XY{X: g.Lat.X(p[0]) + g.jit(), Y: g.Lat.Y(p[1]) + g.jit()}}
	if g.CT.Is3D() {
		c.Z = g.zm()
	}
	if g.CT.IsMeasured() {
		c.M = g.zm()
	}
	return geom.NewPoint(c)
}

func (g *Gen) npts(min int) int {
	max := g.Cfg.MaxPts
	if max < min {
		max = min
	}
	// mostly small, sometimes up to max
	if g.Cfg.AlwaysLong {
		lo := max * 2 / 3
		if lo < min {
			lo = min
		}
		return lo + g.S.Intn(max-lo+1, "np")
	}
	if g.S.Intn(4, "np/big") == 3 {
		return min + g.S.Intn(max-min+1, "np")
	}
	m := 12
	if m > max {
		m = max
	}
	return min + g.S.Intn(m-min+1, "np")
}

func (g *Gen) lineString() geom.LineString {
	s := g.S
	if g.Cfg.Empties && s.Intn(10, "ls/empty") == 9 {
		return geom.NewLineString(geom.NewSequence(nil, g.CT))
	}
	n := g.npts(2)
	pts := make([][2]int, 0, n+1)
	cur := g.pt()
	pts = append(pts, cur)
	for guard := 0; len(pts) < n && guard < 8*n+64; guard++ {
		var nx [2]int
		if s.Intn(3, "ls/step") == 0 {
			nx = g.pt()
		} else {
			nx = [2]int{cur[0] + s.Intn(5, "dx") - 2, cur[1] + s.Intn(5, "dy") - 2}
			nx[0] = clampIdx(nx[0], g.Lat.Side+1)
			nx[1] = clampIdx(nx[1], g.Lat.Side+1)
		}
		if nx == cur && s.Intn(8, "ls/dup") != 7 {
			continue
		}
		pts = append(pts, nx)
		cur = nx
	}
	if s.Intn(4, "ls/closed") == 3 && len(pts) >= 3 {
		pts = append(pts, pts[0])
	}
	distinct := false
	for _, p := range pts[1:] {
		if p != pts[0] {
			distinct = true
		}
	}
	if !distinct && !g.Cfg.Invalid {
		pts = append(pts, [2]int{(pts[0][0] + 1) % (g.Lat.Side + 1), pts[0][1]})
	}
	if g.Cfg.Invalid && s.Intn(6, "ls/short") == 5 {
		pts = pts[:1]
	}
	return geom.NewLineString(g.seq(pts))
}

// ring shapes -----------------------------------------------------------

// rectRing returns a closed rectangle ring.
func rectRing(x0, y0, x1, y1 int) [][2]int {
	return [][2]int{{x0, y0}, {x1, y0}, {x1, y1}, {x0, y1}, {x0, y0}}
}

// convexRing builds a convex polygon from vectors sorted by angle.
func (g *Gen) convexRing(k int) [][2]int {
	s := g.S
	type v struct{ x, y int }
	var vs []v
	for i := 0; i < k; i++ {
		a := v{s.Intn(5, "cv/x") - 2, s.Intn(5, "cv/y") - 2}
		if a.x == 0 && a.y == 0 {
			a.x = 1
		}
		vs = append(vs, a, v{-a.x, -a.y})
	}
	half := func(a v) int {
		if a.y > 0 || (a.y == 0 && a.x > 0) {
			return 0
		}
		return 1
	}
	sort.SliceStable(vs, func(i, j int) bool {
		hi, hj := half(vs[i]), half(vs[j])
		if hi != hj {
			return hi < hj
		}
		return vs[i].x*vs[j].y-vs[i].y*vs[j].x > 0
	})
	pts := [][2]int{{0, 0}}
	x, y := 0, 0
	for _, a := range vs[:len(vs)-1] {
		x += a.x
		y += a.y
		pts = append(pts, [2]int{x, y})
	}
	pts = append(pts, [2]int{0, 0})
	// translate into the positive quadrant
	mx, my := 0, 0
	for _, p := range pts {
		if p[0] < mx {
			mx = p[0]
		}
		if p[1] < my {
			my = p[1]
		}
	}
	for i := range pts {
		pts[i][0] -= mx
		pts[i][1] -= my
	}
	return pts
}

// combRing builds an orthogonal polygon from a height profile.
func (g *Gen) combRing(cols int) [][2]int {
	s := g.S
	H := g.Lat.Side
	if H < 2 {
		H = 2
	}
	pts := [][2]int{{0, 0}, {cols, 0}}
	prev := -1
	for c := cols; c > 0; c-- {
		h := 1 + s.Intn(H, "comb/h")
		if h != prev {
			if prev >= 0 {
				pts = append(pts, [2]int{c, h})
			} else {
				pts[len(pts)-1] = [2]int{cols, 0}
				pts = append(pts, [2]int{c, h})
			}
		}
		pts = append(pts, [2]int{c - 1, h})
		prev = h
	}
	pts = append(pts, [2]int{0, 0})
	// drop consecutive duplicates
	out := pts[:1]
	for _, p := range pts[1:] {
		if p != out[len(out)-1] {
			out = append(out, p)
		}
	}
	return out
}

func rotateRing(r [][2]int, k int) [][2]int {
	n := len(r) - 1
	if n <= 0 {
		return r
	}
	out := make([][2]int, 0, len(r))
	for i := 0; i < n; i++ {
		out = append(out, r[(i+k)%n])
	}
	return append(out, out[0])
}

func reverseRing(r [][2]int) [][2]int {
	out := make([][2]int, len(r))
	for i, p := range r {
		out[len(r)-1-i] = p
	}
	return out
}

func shiftRing(r [][2]int, dx, dy int) [][2]int {
	out := make([][2]int, len(r))
	for i, p := range r {
		out[i] = [2]int{p[0] + dx, p[1] + dy}
	}
	return out
}

func (g *Gen) polygonRings() [][][2]int {
	s := g.S
	S := g.Lat.Side
	var rings [][][2]int
	switch s.Intn(4, "pg/shape") {
	case 0:
		x0, y0 := s.Intn(S, "rx"), s.Intn(S, "ry")
		x1, y1 := x0+1+s.Intn(S-x0, "rw"), y0+1+s.Intn(S-y0, "rh")
		rings = append(rings, rectRing(x0, y0, x1, y1))
		// holes: unit rects inside, possibly touching each other at a corner
		if x1-x0 >= 3 && y1-y0 >= 3 {
			nh := s.Intn(4, "pg/holes")
			used := map[[2]int]bool{}
			for h := 0; h < nh; h++ {
				hx, hy := x0+1+s.Intn(x1-x0-2, "hx"), y0+1+s.Intn(y1-y0-2, "hy")
				if used[[2]int{hx, hy}] || used[[2]int{hx + 1, hy}] || used[[2]int{hx - 1, hy}] || used[[2]int{hx, hy + 1}] || used[[2]int{hx, hy - 1}] {
					continue
				}
				used[[2]int{hx, hy}] = true
				rings = append(rings, rectRing(hx, hy, hx+1, hy+1))
			}
		}
	case 1:
		k := 2 + s.Intn(3, "cv/k")
		if g.Cfg.MaxPts > 64 && s.Intn(3, "cv/big") == 2 {
			k = 2 + s.Intn(g.Cfg.MaxPts/2, "cv/kbig")
		}
		rings = append(rings, g.convexRing(k))
	case 2:
		cols := 1 + s.Intn(minInt(S, 6), "comb/cols")
		if g.Cfg.MaxPts > 64 && s.Intn(3, "comb/big") == 2 {
			cols = 1 + s.Intn(g.Cfg.MaxPts/2, "comb/colsbig")
		}
		rings = append(rings, g.combRing(cols))
	default:
		// triangle / quad from random lattice points (may be degenerate: filtered by Validate)
		a, b, c := g.pt(), g.pt(), g.pt()
		rings = append(rings, [][2]int{a, b, c, a})
	}
	for i := range rings {
		if len(rings[i]) > 2 {
			rings[i] = rotateRing(rings[i], s.Intn(len(rings[i])-1, "pg/rot"))
		}
		if s.Intn(2, "pg/rev") == 1 {
			rings[i] = reverseRing(rings[i])
		}
	}
	return rings
}

func minInt(a, b int) int {
	if a < b {
		return a
	}
	return b
}

func (g *Gen) polyFrom(rings [][][2]int) geom.Polygon {
	ls := make([]geom.LineString, len(rings))
	for i, r := range rings {
		ls[i] = geom.NewLineString(g.seq(r))
	}
	return geom.NewPolygon(ls)
}

func (g *Gen) polygon() geom.Polygon {
	s := g.S
	if g.Cfg.Empties && s.Intn(10, "pg/empty") == 9 {
		return geom.Polygon{}.ForceCoordinatesType(g.CT)
	}
	for try := 0; try < 4; try++ {
		p := g.polyFrom(g.polygonRings())
		if g.Cfg.Invalid || p.Validate() == nil {
			return p
		}
	}
	x0, y0 := s.Intn(g.Lat.Side, "rx"), s.Intn(g.Lat.Side, "ry")
	return g.polyFrom([][][2]int{rectRing(x0, y0, x0+1, y0+1)})
}

func (g *Gen) nparts() int {
	m := g.Cfg.MaxParts
	if m < 1 {
		m = 4
	}
	lo := 1
	if g.Cfg.Empties {
		lo = 0
	}
	return lo + g.S.Intn(m-lo+1, "nparts")
}

func (g *Gen) multiPoint() geom.MultiPoint {
	n := g.nparts()
	if g.Cfg.MaxPts > 64 && g.S.Intn(4, "mp/big") == 3 {
		n = g.S.Intn(g.Cfg.MaxPts, "mp/n")
	}
	if n == 0 {
		return geom.MultiPoint{}.ForceCoordinatesType(g.CT)
	}
	pts := make([]geom.Point, n)
	for i := range pts {
		pts[i] = g.point()
	}
	return geom.NewMultiPoint(pts)
}

func (g *Gen) multiLineString() geom.MultiLineString {
	n := g.nparts()
	if n == 0 {
		return geom.MultiLineString{}.ForceCoordinatesType(g.CT)
	}
	ls := make([]geom.LineString, n)
	for i := range ls {
		ls[i] = g.lineString()
	}
	return geom.NewMultiLineString(ls)
}

func (g *Gen) multiPolygon() geom.MultiPolygon {
	s := g.S
	n := g.nparts()
	if n == 0 {
		return geom.MultiPolygon{}.ForceCoordinatesType(g.CT)
	}
	// place polygons in distinct cells of a 2x2 arrangement of the lattice;
	// each polygon is generated in the full lattice and then shifted by
	// (Side+gap) per cell, gap 0 lets corners touch.
	cells := [][2]int{{0, 0}, {1, 0}, {0, 1}, {1, 1}}
	for try := 0; try < 3; try++ {
		gap := s.Intn(3, "mpg/gap")
		var polys []geom.Polygon
		for i := 0; i < n && i < 4; i++ {
			if g.Cfg.Empties && s.Intn(10, "mpg/empty") == 9 {
				polys = append(polys, geom.Polygon{}.ForceCoordinatesType(g.CT))
				continue
			}
			rings := g.polygonRings()
			c := cells[i]
			for r := range rings {
				rings[r] = shiftRing(rings[r], c[0]*(2*g.Lat.Side+gap), c[1]*(2*g.Lat.Side+gap))
			}
			polys = append(polys, g.polyFrom(rings))
		}
		mp := geom.NewMultiPolygon(polys)
		if g.Cfg.Invalid || mp.Validate() == nil {
			return mp
		}
	}
	return geom.NewMultiPolygon([]geom.Polygon{g.polyFrom([][][2]int{rectRing(0, 0, 1, 1)})})
}

// Geometry draws one geometry. depth is the remaining collection depth.
func (g *Gen) Geometry(depth int) geom.Geometry {
	s := g.S
	t := g.Cfg.ForceType - 1
	if t < 0 {
		nt := 7
		if depth <= 0 {
			nt = 6
		}
		t = s.Intn(nt, "gtype")
	}
	switch t {
	case 0:
		return g.point().AsGeometry()
	case 1:
		return g.lineString().AsGeometry()
	case 2:
		return g.polygon().AsGeometry()
	case 3:
		return g.multiPoint().AsGeometry()
	case 4:
		return g.multiLineString().AsGeometry()
	case 5:
		return g.multiPolygon().AsGeometry()
	}
	n := g.nparts()
	if n == 0 {
		return geom.GeometryCollection{}.ForceCoordinatesType(g.CT).AsGeometry()
	}
	saved := g.Cfg.ForceType
	g.Cfg.ForceType = 0
	ms := make([]geom.Geometry, n)
	for i := range ms {
		ms[i] = g.Geometry(depth - 1)
	}
	g.Cfg.ForceType = saved
	return geom.NewGeometryCollection(ms).AsGeometry()
}

// New draws the coordinate type and returns a generator.
func New(s *vs.Stream, lat Lattice, cfg Cfg) *Gen {
	g := &Gen{S: s, Lat: lat, Cfg: cfg, CT: geom.DimXY}
	if cfg.CTypes {
		g.CT = []geom.CoordinatesType{geom.DimXY, geom.DimXYZ, geom.DimXYM, geom.DimXYZM}[s.Intn(4, "ctype")]
	}
	return g
}

// Valid draws a geometry that passes Validate (falls back to a point).
func (g *Gen) Valid(depth int) geom.Geometry {
	for try := 0; try < 4; try++ {
		x := g.Geometry(depth)
		if x.Validate() == nil {
			return x
		}
	}
	return geom.NewPoint(geom.Coordinates{Type: g.CT, XY: geom.XY{X: g.Lat.X(0), Y: g.Lat.Y(0)}}).AsGeometry()
}

// TouchingHolesPolygon builds a rectangle with 2-4 unit-square holes placed so
// that they touch each other and/or the shell at lattice corners (a cycle of
// touches disconnects the interior): not valid, by construction or by chance.
func (g *Gen) TouchingHolesPolygon() geom.Geometry {
	s := g.S
	w, h := 4+s.Intn(3, "th/w"), 4+s.Intn(3, "th/h")
	rings := [][][2]int{rectRing(0, 0, w, h)}
	n := 2 + s.Intn(3, "th/n")
	x, y := 1+s.Intn(2, "th/x"), 1+s.Intn(2, "th/y")
	for i := 0; i < n; i++ {
		rings = append(rings, rectRing(x, y, x+1, y+1))
		// next hole diagonally adjacent (corner touch), or edge-adjacent to the shell
		switch s.Intn(3, "th/step") {
		case 0:
			x, y = x+1, y+1
		case 1:
			x, y = x+1, y-1
		default:
			x, y = x-1, y+1
		}
		if x < 0 {
			x = 0
		}
		if y < 0 {
			y = 0
		}
		if x >= w {
			x = w - 1
		}
		if y >= h {
			y = h - 1
		}
	}
	return g.polyFrom(rings).AsGeometry()
}
