// Command c11 is the simulation engine for property C11: R-tree searches are
// exact, ordered, and stop when told to. See DESIGN.md §3.3.
package main

import (
	"errors"
	"fmt"
	"math"
	"sort"
	"strings"

	"github.com/peterstace/simplefeatures/rtree"
	vs "github.com/peterstace/simplefeatures/verifsim"
	"verifsim.local/sim/simkit"
)

func main() { simkit.Main(&engine{}) }

type engine struct{}

func (*engine) ID() string { return "C11" }

const (
	nLayouts   = 15
	blockSizes = 41 // sizes 0..40
)

func (*engine) Plan(tier string) int64 {
	if tier == "thorough" {
		return int64(blockSizes*nLayouts*6) + 1000000
	}
	return int64(blockSizes*nLayouts) + 30000
}

func (*engine) Describe() simkit.Description {
	return simkit.Description{
		Level: "exploration",
		Rule: "One run = one seeded item multiset (size, layout) bulk-loaded into a real rtree.RTree, then 1-8 simulated caller goroutines " +
			"each issuing a script of RangeSearch/PrioritySearch/Nearest/Count/Extent calls whose callbacks are scripted (continue k visits, then Stop / wrapped Stop / error / wrapped error / panic; optional nested search), " +
			"under the seeded baton scheduler which switches tasks at yield points inside the library and inside callbacks. The first |sizes 0..40| x |layouts| x variants runs form an enumerated block in which, for every search issued, " +
			"EVERY abort position k and every abort behaviour is executed. Every recorded callback history and return value is compared with a linear-scan reference model. " +
			"distinct_nontrivial counts distinct (size class, layout, search kind, abort kind, abort position class, nesting depth, switched-inside-callback) tuples over searches that have at least one expected visit or an abort; " +
			"searches on an empty tree or with no expected visit and no abort are trivial and not counted.",
		Assumptions: []string{
			"Coordinates are integers times a power of two (|mantissa| <= 2^20) in all layouts but 'general-floats', so every squared box distance is exact in float64 and order is checked exactly; in 'general-floats' order is checked with a relative allowance of 1e-12.",
			"errors.Join(Stop, otherError) (ambiguous: both a Stop and an error) and error types with a custom Is() claiming to be Stop are outside the property's statement and not generated; wrapping trees that contain Stop and nothing else (errors.Join(Stop), %w around it) are generated and must surface as nil.",
			"The rtree package is run as real code, instrumented only with yield points (no semantic rewrite).",
		},
		Real:      []string{"rtree (all of it: BulkLoad, RangeSearch, PrioritySearch, Nearest, Count, Extent)"},
		Simulated: []string{"caller goroutines (seeded baton scheduler)", "callback behaviour (scripted aborts, panics, nested searches)", "logical step clock"},
		Stubbed:   []string{},
	}
}

// ---------------------------------------------------------------- model

type item struct {
	box rtree.Box
	id  int
}

func overlapClosed(a, b rtree.Box) bool {
	return a.MinX <= b.MaxX && b.MinX <= a.MaxX && a.MinY <= b.MaxY && b.MinY <= a.MaxY
}

func dist2(a, b rtree.Box) float64 {
	dx := math.Max(0, math.Max(a.MinX-b.MaxX, b.MinX-a.MaxX))
	dy := math.Max(0, math.Max(a.MinY-b.MaxY, b.MinY-a.MaxY))
	return dx*dx + dy*dy
}

// ---------------------------------------------------------------- scenario

var layoutNames = [nLayouts]string{"uniform", "points", "hlines", "vlines", "duplicates", "same-centre", "nested", "clusters", "collinear", "tied-centre-sums", "huge", "mixed-sign-zero", "all-identical", "general-floats", "tiny-scale"}

type scen struct {
	m       *vs.Stream
	n       int
	layout  int
	scale   float64
	exact   bool
	items   []item
	repeats bool
}

func (sc *scen) coord(i int) float64 { return float64(i) * sc.scale }

func (sc *scen) gen() {
	m := sc.m
	n := sc.n
	sc.exact = true
	sc.scale = 1
	L := 64 // lattice side
	if n > 200 {
		L = 1024
	}
	if m.Intn(4, "lat") == 0 {
		L = 8
	}
	r := func(k int) int { return m.Intn(k, "c") }
	mk := func(x0, y0, w, h int) rtree.Box {
		return rtree.Box{MinX: sc.coord(x0), MinY: sc.coord(y0), MaxX: sc.coord(x0 + w), MaxY: sc.coord(y0 + h)}
	}
	off := 0
	switch sc.layout {
	case 14:
		// integers times 2^-k with k up to 1040: gaps whose squares underflow
		sc.scale = math.Ldexp(1, -(500 + m.Intn(540, "scale")))
	case 10:
		sc.scale = math.Ldexp(1, 40+m.Intn(580, "scale")) // up to 2^620: squared distances overflow to +Inf
	case 11:
		off = -L / 2
	}
	if sc.layout != 10 && sc.layout != 13 && sc.layout != 14 && m.Intn(6, "sc") == 5 {
		sc.scale = math.Ldexp(1, m.Intn(41, "scale")-20)
	}
	items := make([]item, 0, n)
	var centres [][2]int
	for i := 0; i < n; i++ {
		var b rtree.Box
		switch sc.layout {
		case 0, 10, 14:
			b = mk(r(L), r(L), r(L/4+1), r(L/4+1))
		case 1:
			b = mk(r(L), r(L), 0, 0)
		case 2:
			b = mk(r(L), r(L), r(L/2+1), 0)
		case 3:
			b = mk(r(L), r(L), 0, r(L/2+1))
		case 4:
			if i < 3 || len(items) == 0 {
				b = mk(r(L), r(L), r(4), r(4))
			} else {
				b = items[r(minInt(len(items), 3))].box
			}
		case 5:
			h := r(L/2 + 1)
			w := r(L/2 + 1)
			b = mk(L/2-w, L/2-h, 2*w, 2*h)
		case 6:
			k := r(L/2 + 1)
			b = mk(k, k, L-2*k, L-2*k)
		case 7:
			if len(centres) < 4 {
				centres = append(centres, [2]int{r(L), r(L)})
			}
			c := centres[r(len(centres))]
			b = mk(c[0]+r(5)-2, c[1]+r(5)-2, r(3), r(3))
		case 8:
			t := r(L)
			switch i % 3 {
			case 0:
				b = mk(t, t, r(2), r(2))
			case 1:
				b = mk(t, 5, r(3), 0)
			default:
				b = mk(t, L-t, 1, 1)
			}
		case 9:
			// centre sums tie: MinX+MaxX constant across many boxes
			w := r(L/2 + 1)
			h := r(L/2 + 1)
			cx := L + 2*(r(3))
			cy := L + 2*(r(3))
			b = rtree.Box{MinX: sc.coord(cx/2 - w), MaxX: sc.coord(cx - (cx/2 - w)), MinY: sc.coord(cy/2 - h), MaxY: sc.coord(cy - (cy/2 - h))}
		case 11:
			b = mk(off+r(L), off+r(L), r(L/4+1), r(L/4+1))
			if r(4) == 0 {
				b.MinX = math.Copysign(0, -1)
				if b.MaxX < 0 {
					b.MaxX = 0
				}
			}
			if r(4) == 0 {
				b.MinY, b.MaxY = math.Copysign(0, -1), 0
			}
		case 12:
			b = mk(3, 4, 2, 1)
		case 13:
			sc.exact = false
			f := func() float64 {
				return (float64(m.Draw(1<<53, "f"))/float64(uint64(1)<<53) - 0.5) * 1000
			}
			x, y := f(), f()
			b = rtree.Box{MinX: x, MinY: y, MaxX: x + math.Abs(f())/10, MaxY: y + math.Abs(f())/10}
		}
		items = append(items, item{b, i})
	}
	// repeated IDs only among identical boxes, so that the distance of a
	// visited id stays well defined.
	if n > 1 && m.Intn(8, "repeat") == 7 {
		sc.repeats = true
		for i := 1; i < n; i++ {
			if m.Intn(3, "rep") == 0 {
				j := m.Intn(i, "repj")
				items[i].box = items[j].box
				items[i].id = items[j].id
			}
		}
	} else if n > 0 && m.Intn(4, "ids") == 3 {
		// arbitrary (unique) record ids, including negative and large
		base := m.Intn(1000, "idbase") - 500
		mul := 1 + m.Intn(7, "idmul")
		for i := range items {
			items[i].id = base + i*mul
		}
		if m.Intn(2, "idspecial") == 1 {
			// record ids a caller may well use: -1 and the integer extremes
			special := []int{-1, math.MinInt64, math.MaxInt64, -2, math.MaxInt32, math.MinInt32}
			for i := range items {
				if i < len(special) {
					items[(i*7)%len(items)].id = special[i]
				}
			}
			seen := map[int]bool{}
			for i := range items { // keep ids unique
				for seen[items[i].id] {
					items[i].id += 1000003
				}
				seen[items[i].id] = true
			}
		}
	}
	sc.items = items
}

func minInt(a, b int) int {
	if a < b {
		return a
	}
	return b
}

func (sc *scen) extent() (rtree.Box, bool) {
	if len(sc.items) == 0 {
		return rtree.Box{}, false
	}
	e := sc.items[0].box
	for _, it := range sc.items[1:] {
		e.MinX = math.Min(e.MinX, it.box.MinX)
		e.MinY = math.Min(e.MinY, it.box.MinY)
		e.MaxX = math.Max(e.MaxX, it.box.MaxX)
		e.MaxY = math.Max(e.MaxY, it.box.MaxY)
	}
	return e, true
}

var queryKinds = []string{"item-box", "edge-touch", "corner-touch", "enclosing", "disjoint", "point", "line", "far", "random", "inside-item"}

// query derives a query box from the data.
func (sc *scen) query(s *vs.Stream) (rtree.Box, string) {
	ext, ok := sc.extent()
	if !ok {
		return rtree.Box{MinX: 0, MinY: 0, MaxX: 1, MaxY: 1}, "empty-tree"
	}
	k := s.Intn(len(queryKinds), "qk")
	it := sc.items[s.Intn(len(sc.items), "qi")].box
	u := sc.scale
	w := it.MaxX - it.MinX
	h := it.MaxY - it.MinY
	if !sc.exact {
		u = 1
	}
	var q rtree.Box
	switch k {
	case 0:
		q = it
	case 1:
		switch s.Intn(4, "side") {
		case 0:
			q = rtree.Box{MinX: it.MaxX, MinY: it.MinY, MaxX: it.MaxX + u + w, MaxY: it.MaxY}
		case 1:
			q = rtree.Box{MinX: it.MinX - u - w, MinY: it.MinY, MaxX: it.MinX, MaxY: it.MaxY}
		case 2:
			q = rtree.Box{MinX: it.MinX, MinY: it.MaxY, MaxX: it.MaxX, MaxY: it.MaxY + u + h}
		default:
			q = rtree.Box{MinX: it.MinX, MinY: it.MinY - u - h, MaxX: it.MaxX, MaxY: it.MinY}
		}
	case 2:
		switch s.Intn(4, "corner") {
		case 0:
			q = rtree.Box{MinX: it.MaxX, MinY: it.MaxY, MaxX: it.MaxX + 3*u, MaxY: it.MaxY + 2*u}
		case 1:
			q = rtree.Box{MinX: it.MinX - 3*u, MinY: it.MaxY, MaxX: it.MinX, MaxY: it.MaxY + 2*u}
		case 2:
			q = rtree.Box{MinX: it.MinX - 2*u, MinY: it.MinY - 2*u, MaxX: it.MinX, MaxY: it.MinY}
		default:
			q = rtree.Box{MinX: it.MaxX, MinY: it.MinY - u, MaxX: it.MaxX + u, MaxY: it.MinY}
		}
	case 3:
		q = rtree.Box{MinX: ext.MinX - u, MinY: ext.MinY - u, MaxX: ext.MaxX + u, MaxY: ext.MaxY + u}
		if s.Intn(2, "tight") == 0 {
			q = ext
		}
	case 4:
		q = rtree.Box{MinX: ext.MaxX + u, MinY: ext.MinY, MaxX: ext.MaxX + 5*u, MaxY: ext.MaxY}
	case 5:
		switch s.Intn(3, "pt") {
		case 0:
			q = rtree.Box{MinX: it.MinX, MinY: it.MinY, MaxX: it.MinX, MaxY: it.MinY}
		case 1:
			q = rtree.Box{MinX: it.MaxX, MinY: it.MaxY, MaxX: it.MaxX, MaxY: it.MaxY}
		default:
			cx, cy := (it.MinX+it.MaxX)/2, (it.MinY+it.MaxY)/2
			q = rtree.Box{MinX: cx, MinY: cy, MaxX: cx, MaxY: cy}
		}
	case 6:
		if s.Intn(2, "ln") == 0 {
			q = rtree.Box{MinX: ext.MinX, MinY: it.MinY, MaxX: ext.MaxX, MaxY: it.MinY}
		} else {
			q = rtree.Box{MinX: it.MaxX, MinY: ext.MinY, MaxX: it.MaxX, MaxY: ext.MaxY}
		}
	case 7:
		d := (ext.MaxX - ext.MinX + ext.MaxY - ext.MinY + u) * 16
		q = rtree.Box{MinX: ext.MaxX + d, MinY: ext.MaxY + d, MaxX: ext.MaxX + d + u, MaxY: ext.MaxY + d + 2*u}
		if s.Intn(2, "neg") == 0 {
			q = rtree.Box{MinX: ext.MinX - d - u, MinY: ext.MinY - d - u, MaxX: ext.MinX - d, MaxY: ext.MinY - d}
		}
	case 8:
		fx := func() float64 {
			t := float64(s.Intn(17, "rx")) / 16
			return ext.MinX + math.Floor((ext.MaxX-ext.MinX)*t/u)*u
		}
		fy := func() float64 {
			t := float64(s.Intn(17, "ry")) / 16
			return ext.MinY + math.Floor((ext.MaxY-ext.MinY)*t/u)*u
		}
		x0, x1, y0, y1 := fx(), fx(), fy(), fy()
		q = rtree.Box{MinX: math.Min(x0, x1), MinY: math.Min(y0, y1), MaxX: math.Max(x0, x1), MaxY: math.Max(y0, y1)}
	default:
		cx, cy := (it.MinX+it.MaxX)/2, (it.MinY+it.MaxY)/2
		q = rtree.Box{MinX: math.Min(cx, it.MinX+u), MinY: math.Min(cy, it.MinY+u), MaxX: cx, MaxY: cy}
		if q.MinX > q.MaxX {
			q.MinX = q.MaxX
		}
		if q.MinY > q.MaxY {
			q.MinY = q.MaxY
		}
	}
	return q, queryKinds[k]
}

// ---------------------------------------------------------------- scripts

const (
	abNone = iota
	abStop
	abWrapStop1
	abWrapStop2
	abJoinStop
	abMultiWrapStop
	abErr
	abWrapErr
	abPanic
	nAbortKinds
)

var abortNames = [nAbortKinds]string{"none", "stop", "wrapped-stop", "wrapped-stop-2", "joined-stop", "multi-wrapped-stop", "error", "wrapped-error", "panic"}

type sentinel struct{ n int }

func (s *sentinel) Error() string { return fmt.Sprintf("sentinel-%d", s.n) }

const (
	kRange = iota
	kPriority
	kNearest
	kCount
	kExtent
)

var kindNames = []string{"RangeSearch", "PrioritySearch", "Nearest", "Count", "Extent"}

// search is one scripted call and its recorded history.
type search struct {
	kind   int
	q      rtree.Box
	qkind  string
	abort  int
	k      int // abort at visit index k (0-based)
	nested *search
	nestAt int
	depth  int

	// recorded
	visits     []int
	ret        error
	panicked   interface{}
	want       error       // the exact error value the callback returned at abort
	wantPanic  interface{} // the exact panic value
	nearestID  int
	nearestOK  bool
	count      int
	ext        rtree.Box
	extOK      bool
	ran        bool
	stepsStart int64
	switched   bool // a context switch happened inside a callback of this search
	budgetHit  bool
}

const (
	siteCallback = -10
	siteBetween  = -11
)

func (s *search) mkAbort() {
	switch s.abort {
	case abStop:
		s.want = rtree.Stop
	case abWrapStop1:
		s.want = fmt.Errorf("ctx: %w", rtree.Stop)
	case abWrapStop2:
		s.want = fmt.Errorf("outer: %w", fmt.Errorf("inner: %w", rtree.Stop))
	case abJoinStop:
		// a wrapping tree that contains Stop and nothing else: unambiguously "wrapped Stop"
		s.want = errors.Join(rtree.Stop)
	case abMultiWrapStop:
		s.want = fmt.Errorf("layer: %w", errors.Join(fmt.Errorf("inner: %w", rtree.Stop)))
	case abErr:
		s.want = &sentinel{s.k}
	case abWrapErr:
		s.want = fmt.Errorf("wrapped: %w", &sentinel{s.k})
	case abPanic:
		s.wantPanic = &sentinel{-s.k - 1}
	}
}

func (s *search) run(t *vs.Task, tree *rtree.RTree) {
	s.ran = true
	s.mkAbort()
	cb := func(id int) error {
		before := int64(0)
		if t != nil {
			before = t.Switches()
		}
		vs.Yield(siteCallback)
		if t != nil && t.Switches() != before {
			s.switched = true
		}
		s.visits = append(s.visits, id)
		if s.nested != nil && !s.nested.ran && len(s.visits)-1 == s.nestAt {
			s.nested.run(t, tree)
		}
		if s.abort != abNone && len(s.visits)-1 >= s.k {
			if s.abort == abPanic {
				panic(s.wantPanic)
			}
			return s.want
		}
		return nil
	}
	defer func() {
		if r := recover(); r != nil {
			if _, ok := r.(vs.StepBudgetExceeded); ok {
				s.budgetHit = true
				return
			}
			s.panicked = r
		}
	}()
	switch s.kind {
	case kRange:
		s.ret = tree.RangeSearch(s.q, cb)
	case kPriority:
		s.ret = tree.PrioritySearch(s.q, cb)
	case kNearest:
		s.nearestID, s.nearestOK = tree.Nearest(s.q)
	case kCount:
		s.count = tree.Count()
	case kExtent:
		s.ext, s.extOK = tree.Extent()
	}
}

// ---------------------------------------------------------------- oracle

type checker struct {
	sc    *scen
	viols []simkit.Violation
	byID  map[int]rtree.Box
	mult  map[int]int
}

func (c *checker) fail(class string, s *search, clause, detail string) {
	sig := class + "/" + kindNames[s.kind] + "/" + clause
	if len(c.viols) < 8 {
		c.viols = append(c.viols, simkit.Violation{Class: class, Sig: sig, Detail: fmt.Sprintf("%s: n=%d layout=%s %s q=%v(%s) abort=%s@%d depth=%d: %s", sig, c.sc.n, layoutNames[c.sc.layout], kindNames[s.kind], s.q, s.qkind, abortNames[s.abort], s.k, s.depth, detail)})
	}
}

func (c *checker) leq(a, b float64) bool {
	if a <= b {
		return true
	}
	if c.sc.exact {
		return false
	}
	return a <= b*(1+1e-12)+1e-300
}

func short(v []int) string {
	if len(v) > 24 {
		return fmt.Sprintf("%v…(%d)", v[:24], len(v))
	}
	return fmt.Sprint(v)
}

func (c *checker) check(s *search) {
	if !s.ran {
		return
	}
	sc := c.sc
	if s.budgetHit {
		c.fail("step-budget-exceeded", s, "terminates", "search passed more yield points than its budget (2000 per item + 100000)")
		return
	}
	if s.nested != nil {
		c.check(s.nested)
	}
	switch s.kind {
	case kCount:
		if s.count != len(sc.items) {
			c.fail("count-wrong", s, "count", fmt.Sprintf("Count()=%d, loaded %d", s.count, len(sc.items)))
		}
		return
	case kExtent:
		e, ok := sc.extent()
		if ok != s.extOK {
			c.fail("extent-wrong", s, "found", fmt.Sprintf("Extent() ok=%v want %v", s.extOK, ok))
		} else if ok && !sameBox(e, s.ext) {
			c.fail("extent-wrong", s, "box", fmt.Sprintf("Extent()=%v want %v", s.ext, e))
		}
		return
	case kNearest:
		if s.panicked != nil {
			c.fail("panic", s, "nearest", fmt.Sprint(s.panicked))
			return
		}
		if s.nearestOK != (len(sc.items) > 0) {
			c.fail("nearest-not-minimal", s, "found", fmt.Sprintf("found=%v with %d items", s.nearestOK, len(sc.items)))
			return
		}
		if !s.nearestOK {
			return
		}
		b, ok := c.byID[s.nearestID]
		if !ok {
			c.fail("spurious-record", s, "nearest", fmt.Sprintf("Nearest returned id %d which was never loaded", s.nearestID))
			return
		}
		d := dist2(b, s.q)
		best := math.Inf(1)
		for _, it := range sc.items {
			best = math.Min(best, dist2(it.box, s.q))
		}
		if !c.leq(d, best) {
			c.fail("nearest-not-minimal", s, "distance", fmt.Sprintf("Nearest returned id %d at d2=%g, minimum is %g", s.nearestID, d, best))
		}
		return
	}
	// RangeSearch / PrioritySearch
	H := s.visits
	// expected set
	var expect map[int]int
	nExpect := 0
	if s.kind == kRange {
		expect = map[int]int{}
		for _, it := range sc.items {
			if overlapClosed(it.box, s.q) {
				expect[it.id]++
				nExpect++
			}
		}
	} else {
		expect = c.mult
		nExpect = len(sc.items)
	}
	aborted := s.abort != abNone && s.k < nExpect
	seen := map[int]int{}
	for _, id := range H {
		seen[id]++
	}
	for id, n := range seen {
		if expect[id] == 0 {
			if _, loaded := c.byID[id]; loaded {
				c.fail("spurious-record", s, "visit", fmt.Sprintf("visited id %d whose box %v does not meet q; history %s", id, c.byID[id], short(H)))
			} else {
				c.fail("spurious-record", s, "visit", fmt.Sprintf("visited id %d which was never loaded; history %s", id, short(H)))
			}
			return
		}
		if n > expect[id] {
			c.fail("duplicate-visit", s, "visit", fmt.Sprintf("id %d visited %d times, loaded %d times; history %s", id, n, expect[id], short(H)))
			return
		}
	}
	if aborted {
		if len(H) != s.k+1 {
			if len(H) > s.k+1 {
				c.fail("called-after-abort", s, "abort/"+abortClass(s.abort), fmt.Sprintf("callback returned %s at visit %d but was invoked %d more time(s); history %s", abortNames[s.abort], s.k, len(H)-s.k-1, short(H)))
			} else {
				c.fail("missed-record", s, "short-history", fmt.Sprintf("expected %d visits before abort, got %d; history %s", s.k+1, len(H), short(H)))
			}
			return
		}
	} else {
		if len(H) != nExpect {
			for id, n := range expect {
				if seen[id] < n {
					c.fail("missed-record", s, "visit", fmt.Sprintf("id %d (box %v) not visited (%d of %d); %d visits, expected %d; history %s", id, c.byID[id], seen[id], n, len(H), nExpect, short(H)))
					return
				}
			}
			c.fail("missed-record", s, "visit", fmt.Sprintf("%d visits, expected %d", len(H), nExpect))
			return
		}
	}
	if s.kind == kPriority {
		last := math.Inf(-1)
		for i, id := range H {
			d := dist2(c.byID[id], s.q)
			if !c.leq(last, d) {
				c.fail("order-violated", s, "non-decreasing", fmt.Sprintf("visit %d (id %d, d2=%g) after d2=%g; history %s", i, id, d, last, short(H)))
				return
			}
			last = d
		}
		if aborted && len(H) > 0 {
			// prefix property: nothing unvisited is strictly closer than the last visited
			rem := map[int]int{}
			for id, n := range expect {
				rem[id] = n - seen[id]
			}
			for _, it := range sc.items {
				if rem[it.id] > 0 {
					if d := dist2(it.box, s.q); !c.leq(last, d) {
						c.fail("order-violated", s, "prefix", fmt.Sprintf("unvisited id %d at d2=%g is closer than last visited d2=%g; history %s", it.id, d, last, short(H)))
						return
					}
				}
			}
		}
	}
	// return value
	switch {
	case aborted && s.abort == abPanic:
		if s.panicked == nil {
			c.fail("panic-swallowed", s, "panic", fmt.Sprintf("callback panicked but the search returned normally (ret=%v)", s.ret))
		} else if s.panicked != s.wantPanic {
			c.fail("panic-identity-lost", s, "panic", fmt.Sprintf("panic value %v differs from the one raised", s.panicked))
		}
	case s.panicked != nil:
		c.fail("panic", s, "search", fmt.Sprint(s.panicked))
	case aborted && abortClass(s.abort) == "stop":
		if s.ret != nil {
			c.fail("stop-not-nil", s, abortNames[s.abort], fmt.Sprintf("returned %v, want nil", s.ret))
		}
	case aborted:
		if s.ret != s.want {
			c.fail("error-identity-lost", s, abortNames[s.abort], fmt.Sprintf("returned %#v (%v), want the identical value %v", s.ret, s.ret, s.want))
		}
	default:
		if s.ret != nil {
			c.fail("spurious-error", s, "ret", fmt.Sprintf("returned %v without any abort", s.ret))
		}
	}
}

func abortClass(a int) string {
	switch a {
	case abStop, abWrapStop1, abWrapStop2, abJoinStop, abMultiWrapStop:
		return "stop"
	case abPanic:
		return "panic"
	}
	return "error"
}

func sameBox(a, b rtree.Box) bool {
	f := math.Float64bits
	eq := func(x, y float64) bool { return f(x) == f(y) || (x == 0 && y == 0) }
	return eq(a.MinX, b.MinX) && eq(a.MinY, b.MinY) && eq(a.MaxX, b.MaxX) && eq(a.MaxY, b.MaxY)
}

// ---------------------------------------------------------------- run

// searchBudget is the logical-step budget of one search on a tree of n items
// (a full PrioritySearch costs O(n log n) heap steps; nested searches share it).
func searchBudget(n int) int64 { return 2000*int64(n) + 100000 }

func sizeClass(n int) string {
	switch {
	case n == 0:
		return "0"
	case n <= 4:
		return "1-4"
	case n <= 8:
		return "5-8"
	case n <= 16:
		return "9-16"
	case n <= 40:
		return "17-40"
	case n <= 64:
		return "41-64"
	case n <= 256:
		return "65-256"
	case n <= 1024:
		return "257-1024"
	}
	return "1025-5000"
}

func fnv(b []byte) uint64 {
	h := uint64(14695981039346656037)
	for _, c := range b {
		h ^= uint64(c)
		h *= 1099511628211
	}
	return h
}

func (e *engine) Run(src *vs.Source, tier string, idx int64) *simkit.RunResult {
	vs.PoolReset() // a run is a function of its seed, not of what earlier runs left in a sync.Pool
	res := &simkit.RunResult{Stats: map[string]int64{}, Max: map[string]int64{}}
	m := src.Stream("main")
	sc := &scen{m: m}
	block := int64(blockSizes * nLayouts)
	if tier == "thorough" {
		block *= 6
	}
	enumerate := idx < block
	if enumerate {
		sc.n = int(m.Force(41, "n", uint64(idx%blockSizes)))
		sc.layout = int(m.Force(nLayouts, "layout", uint64((idx/blockSizes)%nLayouts)))
	} else {
		switch c := m.Intn(10, "nclass"); {
		case c < 4:
			sc.n = m.Intn(41, "n")
		case c < 7:
			sc.n = 41 + m.Intn(260, "n")
		case c < 9:
			sc.n = 300 + m.Intn(1200, "n")
		default:
			sc.n = 1500 + m.Intn(3501, "n")
		}
		sc.layout = m.Intn(nLayouts, "layout")
	}
	sc.gen()
	n := sc.n

	// --- bulk load (real code), with a step budget and conservation check
	items := make([]rtree.BulkItem, n)
	for i, it := range sc.items {
		items[i] = rtree.BulkItem{Box: it.box, RecordID: it.id}
	}
	var tree *rtree.RTree
	var viols []simkit.Violation
	budget := 8*int64(n)*int64(n) + 100000
	steps, exceeded, pv, stack := vs.Solo(budget, func() { tree = rtree.BulkLoad(items) })
	res.Stats["logical_steps"] += steps
	loadFail := func(class, clause, detail string) {
		viols = append(viols, simkit.Violation{Class: class, Sig: class + "/BulkLoad/" + clause, Detail: fmt.Sprintf("%s/BulkLoad/%s: n=%d layout=%s: %s", class, clause, n, layoutNames[sc.layout], detail)})
	}
	if exceeded {
		loadFail("step-budget-exceeded", "terminates", fmt.Sprintf("BulkLoad passed %d yield points", steps))
	} else if pv != nil {
		loadFail("panic", "load", fmt.Sprintf("%v\n%s", pv, stack))
	}
	sample := map[string]interface{}{"n": n, "layout": layoutNames[sc.layout], "enumerated_block": enumerate, "repeated_ids": sc.repeats}
	if len(viols) > 0 || tree == nil {
		res.Violations = viols
		res.Sample = sample
		return res
	}
	// conservation: the caller's slice is a permutation of what it was
	{
		type key struct {
			b  [4]uint64
			id int
		}
		cnt := map[key]int{}
		mk := func(b rtree.Box, id int) key {
			return key{[4]uint64{math.Float64bits(b.MinX), math.Float64bits(b.MinY), math.Float64bits(b.MaxX), math.Float64bits(b.MaxY)}, id}
		}
		for _, it := range sc.items {
			cnt[mk(it.box, it.id)]++
		}
		bad := len(items) != n
		for _, it := range items {
			k := mk(it.Box, it.RecordID)
			cnt[k]--
			if cnt[k] < 0 {
				bad = true
			}
		}
		if bad {
			loadFail("items-not-conserved", "permutation", "after BulkLoad the caller's item slice is no longer a permutation of what was passed in")
		}
	}
	shape0 := fnv(tree.VerifShape())
	depth := tree.VerifDepth()
	res.Max["tree_depth"] = int64(depth)
	issues := tree.VerifCheck()

	ck := &checker{sc: sc, byID: map[int]rtree.Box{}, mult: map[int]int{}}
	for _, it := range sc.items {
		ck.byID[it.id] = it.box
		ck.mult[it.id]++
	}
	ck.viols = viols

	// --- standing battery (single task, no scheduler): Count, Extent,
	// enclosing range search, full priority search, hook-steered witnesses.
	var battery []*search
	battery = append(battery, &search{kind: kCount}, &search{kind: kExtent})
	if ext, ok := sc.extent(); ok {
		battery = append(battery, &search{kind: kRange, q: ext, qkind: "enclosing"}, &search{kind: kPriority, q: sc.items[0].box, qkind: "item-box"})
	}
	for _, is := range issues {
		res.Stats["hook_issue/"+is.Kind]++
		if is.RecordID >= 0 || is.Kind == "box-not-containing" {
			battery = append(battery, &search{kind: kRange, q: is.RecordBox, qkind: "hook:" + is.Kind})
		}
	}
	nb := len(ck.viols)
	for _, s := range battery {
		st, _, _, _ := vs.Solo(searchBudget(n), func() { s.run(nil, tree) })
		res.Stats["logical_steps"] += st
		ck.check(s)
	}
	if len(issues) > 0 && len(ck.viols) == nb {
		res.Stats["probe/hook_issue_without_observable_witness"]++
	}

	// --- searches
	tuples := map[string]struct{}{}
	note := func(s *search, nExpect int) {
		res.Stats["searches"]++
		res.Stats["callbacks"] += int64(len(s.visits))
		if s.abort != abNone {
			res.Stats["fault/callback-"+abortNames[s.abort]]++
		}
		if s.nested != nil && s.nested.ran {
			res.Stats["fault/callback-reentry"]++
		}
		if n == 0 || (nExpect == 0 && s.abort == abNone) {
			res.Stats["trivial_searches"]++
			return
		}
		pos := "none"
		if s.abort != abNone {
			switch {
			case s.k >= nExpect:
				pos = "beyond"
			case s.k == 0:
				pos = "first"
				res.Stats["probe/abort_at_first_visit"]++
			case s.k == nExpect-1:
				pos = "last"
				res.Stats["probe/abort_at_last_visit"]++
			default:
				pos = "inner"
				if s.k%4 == 3 || s.k%4 == 0 {
					pos = "inner-node-boundary"
				}
			}
			if depth >= 3 && s.k < nExpect {
				res.Stats["probe/abort_in_tree_of_depth_3plus"]++
			}
		}
		nd := 0
		if s.nested != nil && s.nested.ran {
			nd = 1
			if s.nested.nested != nil && s.nested.nested.ran {
				nd = 2
			}
			if s.nested.abort != abNone && len(s.visits) > s.nestAt+1 {
				res.Stats["probe/nested_search_aborted_outer_continued"]++
			}
		}
		if s.switched {
			res.Stats["probe/switch_inside_callback"]++
		}
		tuples[fmt.Sprintf("%s|%s|%s|%s|%s|%d|%v", sizeClass(n), layoutNames[sc.layout], kindNames[s.kind], abortNames[s.abort], pos, nd, s.switched)] = struct{}{}
	}
	expectCount := func(s *search) int {
		if s.kind == kPriority {
			return n
		}
		c := 0
		for _, it := range sc.items {
			if overlapClosed(it.box, s.q) {
				c++
			}
		}
		return c
	}

	if enumerate {
		// every abort position x every abort kind, for a handful of queries
		nq := 3
		for qi := 0; qi < nq; qi++ {
			for _, kind := range []int{kRange, kPriority} {
				q, qk := sc.query(m)
				probe := &search{kind: kind, q: q, qkind: qk}
				ne := expectCount(probe)
				for ab := 0; ab < nAbortKinds; ab++ {
					kmax := ne
					if ab == abNone {
						kmax = 0
					}
					for k := 0; k <= kmax; k++ {
						s := &search{kind: kind, q: q, qkind: qk, abort: ab, k: k}
						st, _, _, _ := vs.Solo(searchBudget(n), func() { s.run(nil, tree) })
						res.Stats["logical_steps"] += st
						res.Stats["enumerated_abort_positions"]++
						ck.check(s)
						note(s, ne)
					}
				}
			}
			s := &search{kind: kNearest}
			s.q, s.qkind = sc.query(m)
			vs.Solo(0, func() { s.run(nil, tree) })
			ck.check(s)
			res.Stats["searches"]++
		}
		if fnv(tree.VerifShape()) != shape0 {
			ck.viols = append(ck.viols, simkit.Violation{Class: "tree-changed", Sig: "tree-changed/enumerated", Detail: "tree shape dump differs after searches"})
		}
		// tie groups
		if n > 0 {
			d := map[float64]int{}
			for _, it := range sc.items {
				d[dist2(it.box, sc.items[0].box)]++
			}
			for _, c := range d {
				if c >= 3 {
					res.Stats["probe/priority_tie_group_of_3plus"]++
					break
				}
			}
		}
	}

	// concurrent phase: tasks under the seeded scheduler
	nt := 1
	if m.Intn(2, "multi") == 1 {
		nt = 2 + m.Intn(7, "ntasks")
	}
	if enumerate && nt > 2 {
		nt = 2
	}
	sim := &vs.Sim{Sched: src.Stream("sched"), MaxSwitchLog: 64}
	sim.Plan = vs.NewSwarmPlan(sim.Sched, [5]int{2, 4, 2, 1, 0}, 7)
	if m.Intn(4, "gc") == 3 {
		sim.GCOdds = 8
		sim.GCMax = 3
	}
	scripts := make([][]*search, nt)
	newSearch := func(s *vs.Stream, depth int) *search {
		var mk func(depth int) *search
		mk = func(depth int) *search {
			x := &search{depth: depth}
			switch c := s.Intn(12, "kind"); {
			case c < 5:
				x.kind = kRange
			case c < 9:
				x.kind = kPriority
			case c < 10:
				x.kind = kNearest
			case c < 11:
				x.kind = kCount
			default:
				x.kind = kExtent
			}
			x.q, x.qkind = sc.query(s)
			if x.kind == kRange || x.kind == kPriority {
				ne := expectCount(x)
				if s.Intn(3, "abort?") > 0 {
					x.abort = 1 + s.Intn(nAbortKinds-1, "abort")
					x.k = s.Intn(ne+2, "k")
					if s.Intn(4, "kedge") == 3 && ne > 0 {
						x.k = []int{0, ne - 1, ne / 2, minInt(3, ne-1)}[s.Intn(4, "kedgev")]
					}
				}
				if depth < 2 && ne > 0 && s.Intn(5, "nest") == 4 {
					x.nestAt = s.Intn(minInt(ne, x.k+1), "nestat")
					x.nested = mk(depth + 1)
				}
			}
			return x
		}
		return mk(depth)
	}
	shapeBad := false
	sim.OnSwitch = func(sm *vs.Sim, from *vs.Task) {
		if sm.NSwitch <= 32 || n <= 64 {
			if fnv(tree.VerifShape()) != shape0 {
				shapeBad = true
			}
		}
	}
	for ti := 0; ti < nt; ti++ {
		ts := src.Stream(fmt.Sprintf("t%d", ti))
		ns := 1 + ts.Intn(6, "nsearch")
		for j := 0; j < ns; j++ {
			scripts[ti] = append(scripts[ti], newSearch(ts, 0))
		}
		script := scripts[ti]
		sim.NewTask(ts, func(t *vs.Task) {
			for _, s := range script {
				t.SetBudget(3 * searchBudget(n))
				s.run(t, tree)
				vs.OpBoundary(siteBetween)
			}
		})
	}
	if err := sim.Run(); err != nil {
		ck.viols = append(ck.viols, simkit.Violation{Class: "machinery", Sig: "machinery/task-panic", Detail: err.Error()})
	}
	for _, t := range sim.Tasks {
		res.Stats["logical_steps"] += t.Steps()
	}
	res.Stats["context_switches"] += sim.NSwitch
	res.Stats["fault/forced-gc"] += sim.Forced
	res.Stats["tasks"] += int64(nt)
	res.Stats[fmt.Sprintf("plan_mode/%d", sim.Plan.(*vs.SwarmPlan).Mode)]++
	if nt > 1 && sim.NSwitch > int64(nt) {
		res.Hashes = append(res.Hashes, sim.Hash)
	}
	if shapeBad || fnv(tree.VerifShape()) != shape0 {
		ck.viols = append(ck.viols, simkit.Violation{Class: "tree-changed", Sig: "tree-changed/search", Detail: fmt.Sprintf("n=%d layout=%s: tree shape dump changed during/after searches", n, layoutNames[sc.layout])})
	}
	var sampleSearches []string
	for _, script := range scripts {
		for _, s := range script {
			ck.check(s)
			if s.kind == kRange || s.kind == kPriority {
				note(s, expectCount(s))
				if s.nested != nil && s.nested.ran {
					note(s.nested, expectCount(s.nested))
				}
			} else {
				res.Stats["searches"]++
			}
			if len(sampleSearches) < 6 {
				d := fmt.Sprintf("%s q=%s abort=%s@%d visits=%d", kindNames[s.kind], s.qkind, abortNames[s.abort], s.k, len(s.visits))
				if s.nested != nil {
					d += fmt.Sprintf(" nested{%s abort=%s@%d at visit %d}", kindNames[s.nested.kind], abortNames[s.nested.abort], s.nested.k, s.nestAt)
				}
				sampleSearches = append(sampleSearches, d)
			}
		}
	}
	for t := range tuples {
		res.Tuples = append(res.Tuples, t)
	}
	sort.Strings(res.Tuples)
	sample["tasks"] = nt
	sample["tree_depth"] = depth
	sample["plan_mode"] = sim.Plan.(*vs.SwarmPlan).Mode
	sample["context_switches"] = sim.NSwitch
	sample["searches"] = sampleSearches
	if len(ck.viols) > 0 {
		var its []string
		for i, it := range sc.items {
			if i >= 40 {
				its = append(its, "…")
				break
			}
			its = append(its, fmt.Sprintf("%d:[%g %g %g %g]", it.id, it.box.MinX, it.box.MinY, it.box.MaxX, it.box.MaxY))
		}
		sample["items"] = strings.Join(its, " ")
	}
	res.Sample = sample
	res.Violations = ck.viols
	return res
}

var _ = errors.Is
