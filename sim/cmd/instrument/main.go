// Command instrument rewrites the non-test Go files of selected packages of a
// scratch copy of the repository so that the simulator owns their scheduling
// points and map iteration orders. It never touches /repo.
//
// Usage (cwd = module root of the scratch copy):
//
//	instrument [-yield-only] [-sites sites.json] geom rtree
//
// Rewrites (DESIGN.md B.3):
//  1. verifsim.Yield(id) at the head of every function body, function literal
//     body, for body and range body.
//  2. for k, v := range m (m a map)  =>  range over verifsim.Keys(site, m).
//  3. verifsim.Tag(key) before every store into a map whose key type is a pointer.
//  4. (*sync.Mutex).Lock / (*sync.RWMutex).Lock/RLock => verifsim.Lock/RLock
//     (try-and-yield loops); (*sync.Once).Do => verifsim.OnceDo (no-preempt).
//     go statements, channels, select, WaitGroup, Cond => reported as degraded.
//
// Exit status 2 on anything it cannot rewrite soundly.
package main

import (
	"bytes"
	"encoding/json"
	"flag"
	"fmt"
	"go/ast"
	"go/format"
	"go/importer"
	"go/parser"
	"go/token"
	"go/types"
	"os"
	"path/filepath"
	"sort"
	"strings"
)

const simImport = "github.com/peterstace/simplefeatures/verifsim"

type Site struct {
	ID   int    `json:"id"`
	Pkg  string `json:"pkg"`
	File string `json:"file"`
	Line int    `json:"line"`
	Func string `json:"func"`
	Kind string `json:"kind"` // func | loop | maprange
	Key  string `json:"key,omitempty"`
}

type Report struct {
	Sites      []Site   `json:"sites"`
	MapRanges  int      `json:"map_ranges"`
	TagStores  int      `json:"tag_stores"`
	LockSites  int      `json:"lock_sites"`
	OnceSites  int      `json:"once_sites"`
	PoolSites  int      `json:"pool_sites"`
	Degraded   []string `json:"degraded"`
	YieldOnly  bool     `json:"yield_only"`
	FilesTotal int      `json:"files"`
	Exported   []string `json:"exported_funcs"`
}

var (
	yieldOnly = flag.Bool("yield-only", false, "insert yields only")
	sitesOut  = flag.String("sites", "", "write site table here")
	report    Report
	fset      = token.NewFileSet()
	tmpN      int
)

func fatalf(f string, a ...interface{}) {
	fmt.Fprintf(os.Stderr, "instrument: "+f+"\n", a...)
	os.Exit(2)
}

func main() {
	flag.Parse()
	if flag.NArg() == 0 {
		fatalf("no packages")
	}
	for _, dir := range flag.Args() {
		doPackage(dir)
	}
	if *sitesOut != "" {
		b, _ := json.Marshal(&report)
		if err := os.WriteFile(*sitesOut, b, 0o644); err != nil {
			fatalf("%v", err)
		}
	}
}

type fileCtx struct {
	pkg      *types.Package
	info     *types.Info
	file     *ast.File
	name     string
	pkgDir   string
	usedSim  bool
	funcName string
}

func doPackage(dir string) {
	ents, err := os.ReadDir(dir)
	if err != nil {
		fatalf("%v", err)
	}
	var files []*ast.File
	var names []string
	for _, e := range ents {
		n := e.Name()
		if e.IsDir() || !strings.HasSuffix(n, ".go") || strings.HasSuffix(n, "_test.go") {
			continue
		}
		f, err := parser.ParseFile(fset, filepath.Join(dir, n), nil, parser.ParseComments)
		if err != nil {
			fatalf("%v", err)
		}
		files = append(files, f)
		names = append(names, n)
	}
	info := &types.Info{
		Types:      map[ast.Expr]types.TypeAndValue{},
		Uses:       map[*ast.Ident]types.Object{},
		Defs:       map[*ast.Ident]types.Object{},
		Selections: map[*ast.SelectorExpr]*types.Selection{},
	}
	conf := types.Config{Importer: importer.ForCompiler(fset, "source", nil)}
	pkg, err := conf.Check("github.com/peterstace/simplefeatures/"+filepath.ToSlash(dir), fset, files, info)
	if err != nil {
		fatalf("type-check %s: %v", dir, err)
	}
	for _, f := range files {
		for _, d := range f.Decls {
			if fd, ok := d.(*ast.FuncDecl); ok && fd.Recv == nil && fd.Name.IsExported() {
				report.Exported = append(report.Exported, filepath.Base(dir)+"."+fd.Name.Name)
			}
		}
	}
	for i, f := range files {
		fc := &fileCtx{pkg: pkg, info: info, file: f, name: names[i], pkgDir: dir}
		fc.rewrite()
		// drop all comments except those before the package clause (build
		// constraints): inserted nodes have no positions and free-floating
		// comments could otherwise be printed in odd places.
		var keep []*ast.CommentGroup
		for _, cg := range f.Comments {
			if cg.End() < f.Package {
				keep = append(keep, cg)
			}
		}
		f.Comments = keep
		for _, d := range f.Decls {
			switch d := d.(type) {
			case *ast.FuncDecl:
				keepDirectives(&d.Doc)
			case *ast.GenDecl:
				d.Doc = nil
			}
		}
		if fc.usedSim {
			imp := &ast.GenDecl{Tok: token.IMPORT, Specs: []ast.Spec{&ast.ImportSpec{
				Name: ast.NewIdent("verifsim"),
				Path: &ast.BasicLit{Kind: token.STRING, Value: `"` + simImport + `"`},
			}}}
			f.Decls = append([]ast.Decl{imp}, f.Decls...)
		}
		var buf bytes.Buffer
		if err := format.Node(&buf, fset, f); err != nil {
			fatalf("print %s: %v", names[i], err)
		}
		// must parse again
		if _, err := parser.ParseFile(token.NewFileSet(), names[i], buf.Bytes(), 0); err != nil {
			fatalf("re-parse %s/%s: %v", dir, names[i], err)
		}
		if err := os.WriteFile(filepath.Join(dir, names[i]), buf.Bytes(), 0o644); err != nil {
			fatalf("%v", err)
		}
		report.FilesTotal++
	}
}

func keepDirectives(doc **ast.CommentGroup) {
	if *doc == nil {
		return
	}
	var keep []*ast.Comment
	for _, c := range (*doc).List {
		if strings.HasPrefix(c.Text, "//go:") {
			keep = append(keep, c)
		}
	}
	if len(keep) == 0 {
		*doc = nil
		return
	}
	(*doc).List = keep
}

func (fc *fileCtx) sim(fn string) ast.Expr {
	fc.usedSim = true
	return &ast.SelectorExpr{X: ast.NewIdent("verifsim"), Sel: ast.NewIdent(fn)}
}

func (fc *fileCtx) newSite(pos token.Pos, kind, key string) int {
	p := fset.Position(pos)
	id := len(report.Sites)
	report.Sites = append(report.Sites, Site{ID: id, Pkg: fc.pkgDir, File: fc.name, Line: p.Line, Func: fc.funcName, Kind: kind, Key: key})
	return id
}

func intLit(n int) ast.Expr { return &ast.BasicLit{Kind: token.INT, Value: fmt.Sprint(n)} }

func (fc *fileCtx) yieldStmt(pos token.Pos, kind string) ast.Stmt {
	id := fc.newSite(pos, kind, "")
	return &ast.ExprStmt{X: &ast.CallExpr{Fun: fc.sim("Yield"), Args: []ast.Expr{intLit(id)}}}
}

func prepend(b *ast.BlockStmt, s ...ast.Stmt) {
	b.List = append(append([]ast.Stmt{}, s...), b.List...)
}

// rewrite walks the file. Statement lists are rewritten bottom-up.
func (fc *fileCtx) rewrite() {
	for _, d := range fc.file.Decls {
		fd, ok := d.(*ast.FuncDecl)
		if !ok {
			// package-level var initialisers may hold function literals
			fc.funcName = "<init>"
			fc.walk(d)
			continue
		}
		fc.funcName = fd.Name.Name
		if fd.Recv != nil && len(fd.Recv.List) == 1 {
			fc.funcName = types.ExprString(fd.Recv.List[0].Type) + "." + fd.Name.Name
		}
		if fd.Body == nil {
			continue
		}
		fc.walk(fd.Body)
		prepend(fd.Body, fc.yieldStmt(fd.Pos(), "func"))
	}
}

// walk visits n's subtree; containers of statement lists are processed after
// their children.
func (fc *fileCtx) walk(n ast.Node) {
	ast.Inspect(n, func(c ast.Node) bool {
		switch c := c.(type) {
		case *ast.GoStmt:
			fc.degraded(c.Pos(), "go statement")
		case *ast.SendStmt:
			fc.degraded(c.Pos(), "channel send")
		case *ast.SelectStmt:
			fc.degraded(c.Pos(), "select")
		case *ast.ChanType:
			fc.degraded(c.Pos(), "channel type")
		case *ast.UnaryExpr:
			if c.Op == token.ARROW {
				fc.degraded(c.Pos(), "channel receive")
			}
		case *ast.SelectorExpr:
			if obj := fc.info.Uses[c.Sel]; obj != nil && obj.Pkg() != nil && obj.Pkg().Path() == "sync" {
				if tn, ok := obj.(*types.TypeName); ok && (tn.Name() == "WaitGroup" || tn.Name() == "Cond") {
					fc.degraded(c.Pos(), "sync."+tn.Name())
				}
			}
		case *ast.CallExpr:
			fc.rewriteSyncCall(c)
			if sel, ok := c.Fun.(*ast.SelectorExpr); ok {
				if obj := fc.info.Uses[sel.Sel]; obj != nil && obj.Pkg() != nil && obj.Pkg().Path() == "runtime" && obj.Name() == "SetFinalizer" {
					fc.degraded(c.Pos(), "runtime.SetFinalizer (library code will run on the finalizer goroutine)")
				}
			}
		}
		return true
	})
	// second pass: statement rewrites. Collect owners first (rewrites mutate
	// nodes in place or replace list elements, never move owners).
	var lists []*[]ast.Stmt
	var labeled []*ast.LabeledStmt
	var bodies []ast.Node
	ast.Inspect(n, func(c ast.Node) bool {
		switch c := c.(type) {
		case *ast.BlockStmt:
			lists = append(lists, &c.List)
		case *ast.CaseClause:
			lists = append(lists, &c.Body)
		case *ast.CommClause:
			lists = append(lists, &c.Body)
		case *ast.LabeledStmt:
			labeled = append(labeled, c)
		case *ast.FuncLit, *ast.ForStmt, *ast.RangeStmt:
			bodies = append(bodies, c)
		case *ast.IfStmt:
			fc.checkSimpleStmt(c.Init)
		case *ast.SwitchStmt:
			fc.checkSimpleStmt(c.Init)
		case *ast.TypeSwitchStmt:
			fc.checkSimpleStmt(c.Init)
		case *ast.CompositeLit:
			fc.checkMapLit(c)
		}
		if f, ok := c.(*ast.ForStmt); ok {
			fc.checkSimpleStmt(f.Init)
			fc.checkSimpleStmt(f.Post)
		}
		return true
	})
	inLabel := map[ast.Stmt]bool{}
	for _, l := range labeled {
		inLabel[l.Stmt] = true
	}
	if !*yieldOnly {
		for _, lp := range lists {
			var out []ast.Stmt
			for _, s := range *lp {
				out = append(out, fc.rewriteListStmt(s)...)
			}
			*lp = out
		}
	}
	// yields last so that site numbering of map ranges does not depend on them
	for _, b := range bodies {
		switch b := b.(type) {
		case *ast.FuncLit:
			prepend(b.Body, fc.yieldStmt(b.Pos(), "func"))
		case *ast.ForStmt:
			prepend(b.Body, fc.yieldStmt(b.Pos(), "loop"))
		case *ast.RangeStmt:
			prepend(b.Body, fc.yieldStmt(b.Pos(), "loop"))
		}
	}
}

func (fc *fileCtx) degraded(pos token.Pos, what string) {
	report.Degraded = append(report.Degraded, fmt.Sprintf("%s: %s", fset.Position(pos), what))
}

// rewriteSyncCall turns blocking sync calls into baton-aware ones.
func (fc *fileCtx) rewriteSyncCall(c *ast.CallExpr) {
	sel, ok := c.Fun.(*ast.SelectorExpr)
	if !ok {
		return
	}
	s := fc.info.Selections[sel]
	if s == nil || s.Kind() != types.MethodVal {
		return
	}
	fn, ok := s.Obj().(*types.Func)
	if !ok || fn.Pkg() == nil || fn.Pkg().Path() != "sync" {
		return
	}
	recv := fn.Type().(*types.Signature).Recv().Type().String()
	var helper string
	switch {
	case (recv == "*sync.Mutex" || recv == "*sync.RWMutex") && fn.Name() == "Lock":
		helper = "Lock"
		report.LockSites++
	case recv == "*sync.RWMutex" && fn.Name() == "RLock":
		helper = "RLock"
		report.LockSites++
	case recv == "*sync.Once" && fn.Name() == "Do":
		helper = "OnceDo"
		report.OnceSites++
	case recv == "*sync.Pool" && fn.Name() == "Get":
		helper = "PoolGet"
		report.PoolSites++
	case recv == "*sync.Pool" && fn.Name() == "Put":
		helper = "PoolPut"
		report.PoolSites++
	default:
		return
	}
	// x.Lock() => verifsim.Lock(&x) ; x may already be a pointer.
	x := sel.X
	var arg ast.Expr
	if _, isPtr := fc.info.TypeOf(x).Underlying().(*types.Pointer); isPtr {
		arg = x
	} else {
		arg = &ast.UnaryExpr{Op: token.AND, X: x}
	}
	c.Fun = fc.sim(helper)
	c.Args = append([]ast.Expr{arg}, c.Args...)
}

func hasPointer(t types.Type) bool {
	switch u := t.Underlying().(type) {
	case *types.Pointer:
		return true
	case *types.Struct:
		for i := 0; i < u.NumFields(); i++ {
			if hasPointer(u.Field(i).Type()) {
				return true
			}
		}
	case *types.Array:
		return hasPointer(u.Elem())
	case *types.Interface:
		return true
	}
	return false
}

func orderable(t types.Type) bool {
	switch u := t.Underlying().(type) {
	case *types.Basic:
		return u.Info()&(types.IsInteger|types.IsFloat|types.IsString|types.IsBoolean) != 0
	case *types.Pointer:
		return true
	case *types.Struct:
		for i := 0; i < u.NumFields(); i++ {
			if !orderable(u.Field(i).Type()) {
				return false
			}
		}
		return true
	case *types.Array:
		return orderable(u.Elem())
	case *types.Interface:
		return true
	}
	return false
}

func (fc *fileCtx) mapKeyType(e ast.Expr) types.Type {
	t := fc.info.TypeOf(e)
	if t == nil {
		return nil
	}
	m, ok := t.Underlying().(*types.Map)
	if !ok {
		return nil
	}
	return m.Key()
}

func pure(e ast.Expr) bool {
	switch e := e.(type) {
	case *ast.Ident, *ast.BasicLit:
		return true
	case *ast.SelectorExpr:
		return pure(e.X)
	case *ast.ParenExpr:
		return pure(e.X)
	case *ast.StarExpr:
		return pure(e.X)
	case *ast.IndexExpr:
		return pure(e.X) && pure(e.Index)
	case *ast.UnaryExpr:
		return e.Op != token.ARROW && pure(e.X)
	}
	return false
}

// storesInto returns the key expressions of pointer-keyed map stores in s.
func (fc *fileCtx) storeKeys(s ast.Stmt) []ast.Expr {
	var lhs []ast.Expr
	switch s := s.(type) {
	case *ast.AssignStmt:
		lhs = s.Lhs
	case *ast.IncDecStmt:
		lhs = []ast.Expr{s.X}
	default:
		return nil
	}
	var keys []ast.Expr
	for _, l := range lhs {
		ix, ok := l.(*ast.IndexExpr)
		if !ok {
			continue
		}
		kt := fc.mapKeyType(ix.X)
		if kt == nil || !hasPointer(kt) {
			continue
		}
		if !pure(ix.Index) {
			fatalf("%s: store into pointer-keyed map with impure key expression", fset.Position(ix.Pos()))
		}
		keys = append(keys, ix.Index)
	}
	return keys
}

func (fc *fileCtx) checkSimpleStmt(s ast.Stmt) {
	if s == nil || *yieldOnly {
		return
	}
	if len(fc.storeKeys(s)) > 0 {
		fatalf("%s: store into pointer-keyed map in init/post position", fset.Position(s.Pos()))
	}
}

func (fc *fileCtx) checkMapLit(c *ast.CompositeLit) {
	if *yieldOnly || len(c.Elts) == 0 {
		return
	}
	kt := fc.mapKeyType(c)
	if kt != nil && hasPointer(kt) {
		fatalf("%s: non-empty literal of pointer-keyed map", fset.Position(c.Pos()))
	}
}

func (fc *fileCtx) qualifier(p *types.Package) string {
	if p == fc.pkg {
		return ""
	}
	for _, imp := range fc.file.Imports {
		path := strings.Trim(imp.Path.Value, `"`)
		if path == p.Path() {
			if imp.Name != nil {
				return imp.Name.Name
			}
			return p.Name()
		}
	}
	fatalf("%s: map key type from package %s which the file does not import", fc.name, p.Path())
	return ""
}

func (fc *fileCtx) fresh(prefix string) *ast.Ident {
	tmpN++
	return ast.NewIdent(fmt.Sprintf("%s__vs%d", prefix, tmpN))
}

// rewriteListStmt rewrites one element of a statement list and returns its
// replacement(s).
func (fc *fileCtx) rewriteListStmt(s ast.Stmt) []ast.Stmt {
	// tag stores
	if keys := fc.storeKeys(s); len(keys) > 0 {
		var out []ast.Stmt
		for _, k := range keys {
			report.TagStores++
			out = append(out, &ast.ExprStmt{X: &ast.CallExpr{Fun: fc.sim("Tag"), Args: []ast.Expr{k}}})
		}
		return append(out, s)
	}
	var label *ast.LabeledStmt
	inner := s
	for {
		l, ok := inner.(*ast.LabeledStmt)
		if !ok {
			break
		}
		label = l
		inner = l.Stmt
	}
	rs, ok := inner.(*ast.RangeStmt)
	if !ok {
		return []ast.Stmt{s}
	}
	kt := fc.mapKeyType(rs.X)
	if kt == nil {
		return []ast.Stmt{s}
	}
	isBlank := func(e ast.Expr) bool {
		if e == nil {
			return true
		}
		id, ok := e.(*ast.Ident)
		return ok && id.Name == "_"
	}
	if isBlank(rs.Key) && isBlank(rs.Value) {
		return []ast.Stmt{s} // only counts
	}
	if !orderable(kt) {
		fatalf("%s: map key type %s cannot be ordered canonically", fset.Position(rs.Pos()), kt)
	}
	report.MapRanges++
	ktStr := types.TypeString(kt, fc.qualifier)
	site := fc.newSite(rs.Pos(), "maprange", ktStr)
	keyT, err := parser.ParseExpr("[]" + ktStr)
	if err != nil {
		fatalf("%s: cannot print key type %s", fset.Position(rs.Pos()), ktStr)
	}
	var pre []ast.Stmt
	m := rs.X
	{
		// always hoist: the original evaluates the range expression once
		tmp := fc.fresh("m")
		pre = append(pre, &ast.AssignStmt{Lhs: []ast.Expr{tmp}, Tok: token.DEFINE, Rhs: []ast.Expr{m}})
		m = tmp
	}
	define := rs.Tok == token.DEFINE
	var key ast.Expr = rs.Key
	if isBlank(key) {
		key = fc.fresh("k")
		define = true
		if rs.Tok == token.ASSIGN {
			// for _, v = range m : need a declared key and an assigned value
			pre = append(pre, &ast.DeclStmt{Decl: &ast.GenDecl{Tok: token.VAR, Specs: []ast.Spec{
				&ast.ValueSpec{Names: []*ast.Ident{key.(*ast.Ident)}, Type: mustExpr(ktStr)},
			}}})
			define = false
		}
	}
	ok2 := fc.fresh("ok")
	var head []ast.Stmt
	idx := func() ast.Expr { return &ast.IndexExpr{X: m, Index: key} }
	if isBlank(rs.Value) {
		head = append(head, &ast.IfStmt{
			Init: &ast.AssignStmt{Lhs: []ast.Expr{ast.NewIdent("_"), ok2}, Tok: token.DEFINE, Rhs: []ast.Expr{idx()}},
			Cond: &ast.UnaryExpr{Op: token.NOT, X: ok2},
			Body: &ast.BlockStmt{List: []ast.Stmt{&ast.BranchStmt{Tok: token.CONTINUE}}},
		})
	} else if rs.Tok == token.DEFINE {
		head = append(head,
			&ast.AssignStmt{Lhs: []ast.Expr{rs.Value, ok2}, Tok: token.DEFINE, Rhs: []ast.Expr{idx()}},
			&ast.IfStmt{Cond: &ast.UnaryExpr{Op: token.NOT, X: ok2},
				Body: &ast.BlockStmt{List: []ast.Stmt{&ast.BranchStmt{Tok: token.CONTINUE}}}},
		)
	} else {
		head = append(head,
			&ast.DeclStmt{Decl: &ast.GenDecl{Tok: token.VAR, Specs: []ast.Spec{
				&ast.ValueSpec{Names: []*ast.Ident{ok2}, Type: ast.NewIdent("bool")}}}},
			&ast.AssignStmt{Lhs: []ast.Expr{rs.Value, ok2}, Tok: token.ASSIGN, Rhs: []ast.Expr{idx()}},
			&ast.IfStmt{Cond: &ast.UnaryExpr{Op: token.NOT, X: ok2},
				Body: &ast.BlockStmt{List: []ast.Stmt{&ast.BranchStmt{Tok: token.CONTINUE}}}},
		)
	}
	rs.X = &ast.TypeAssertExpr{
		X:    &ast.CallExpr{Fun: fc.sim("Keys"), Args: []ast.Expr{intLit(site), m}},
		Type: keyT,
	}
	rs.Value = key
	rs.Key = ast.NewIdent("_")
	if define {
		rs.Tok = token.DEFINE
	} else {
		rs.Tok = token.ASSIGN
	}
	prepend(rs.Body, head...)
	if len(pre) == 0 {
		return []ast.Stmt{s}
	}
	// { pre...; [label:] for ... }
	_ = label
	return []ast.Stmt{&ast.BlockStmt{List: append(pre, s)}}
}

func mustExpr(s string) ast.Expr {
	e, err := parser.ParseExpr(s)
	if err != nil {
		fatalf("%v", err)
	}
	return e
}

func init() {
	_ = sort.Ints
}
