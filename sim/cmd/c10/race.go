//go:build race
// +build race

package main

func init() { raceBuild = true }
