package main

import (
	"errors"
	"fmt"
	"reflect"
	"runtime"
	"sort"
	"strings"
	"unsafe"

	"github.com/peterstace/simplefeatures/geom"
	"github.com/peterstace/simplefeatures/rtree"
	vs "github.com/peterstace/simplefeatures/verifsim"
)

// ---------------------------------------------------------------- catalogue

// opEntry is one callable of the public API.
type opEntry struct {
	name   string
	family string
	recv   string        // receiver kind ("" for free functions)
	fn     reflect.Value // method func (receiver first) or free function
	kinds  []string      // argument kinds (excluding receiver)
	vari   bool
	noScr  map[int]bool // argument positions that must not be scribbled (documented retention)
}

var catalogue []*opEntry
var catalogueProblems []string

var recvTypes = []struct {
	kind string
	t    reflect.Type
}{
	{"G", reflect.TypeOf(geom.Geometry{})},
	{"Point", reflect.TypeOf(geom.Point{})},
	{"LineString", reflect.TypeOf(geom.LineString{})},
	{"Polygon", reflect.TypeOf(geom.Polygon{})},
	{"MultiPoint", reflect.TypeOf(geom.MultiPoint{})},
	{"MultiLineString", reflect.TypeOf(geom.MultiLineString{})},
	{"MultiPolygon", reflect.TypeOf(geom.MultiPolygon{})},
	{"GeometryCollection", reflect.TypeOf(geom.GeometryCollection{})},
	{"Seq", reflect.TypeOf(geom.Sequence{})},
	{"Env", reflect.TypeOf(geom.Envelope{})},
	{"Tree", reflect.TypeOf(&rtree.RTree{})},
}

var paramKinds = map[string]string{
	"float64":                  "float",
	"int":                      "int",
	"geom.CoordinatesType":     "ctype",
	"geom.XY":                  "xy",
	"geom.Envelope":            "env",
	"rtree.Box":                "box",
	"func(geom.XY) geom.XY":    "fnxy",
	"func(int) error":          "cb",
	"[]uint8":                  "dst",
	"[]geom.AreaOption":        "areaopts",
	"[]geom.NoValidate":        "nv",
	"geom.Geometry":            "G",
	"geom.Sequence":            "seq",
	"[]geom.ExactEqualsOption": "eeopts",
	"[]geom.TWKBWriterOption":  "twkbopts",
}

func familyOf(name string) string {
	n := name
	if i := strings.IndexByte(n, '.'); i >= 0 {
		n = n[i+1:]
	}
	switch {
	case strings.HasPrefix(name, "Tree."):
		return "rtree"
	case n == "Union" || n == "Intersection" || n == "Difference" || n == "SymmetricDifference" || n == "UnaryUnion" || n == "UnionMany":
		return "overlay"
	case n == "Relate" || n == "Equals" || n == "Contains" || n == "Covers" || n == "CoveredBy" || n == "Crosses" || n == "Disjoint" || n == "Overlaps" || n == "Touches" || n == "Within" || n == "Intersects" || n == "Distance" || n == "ExactEquals" || n == "RelateMatches":
		return "predicate"
	case strings.HasPrefix(n, "Unmarshal") || strings.HasPrefix(n, "Marshal") || strings.HasPrefix(n, "As") && (n == "AsText" || n == "AsBinary") || strings.HasPrefix(n, "Append") || n == "Value" || n == "Scan" || n == "String" || n == "Summary":
		return "codec"
	case n == "Validate" || n == "IsSimple" || n == "IsValid" || n == "IsRing" || n == "IsClosed":
		return "validate"
	case n == "ConvexHull" || n == "Simplify" || n == "Densify" || n == "SnapToGrid" || n == "TransformXY" || n == "Reverse" || n == "ForceCW" || n == "ForceCCW" || n == "Boundary" || n == "Centroid" || n == "PointOnSurface" || strings.HasPrefix(n, "RotatedMinimum") || strings.HasPrefix(n, "Interpolate") || strings.HasPrefix(n, "Force"):
		return "transform"
	case strings.HasPrefix(n, "New"):
		return "construct"
	}
	return "accessor"
}

var families = []string{"overlay", "predicate", "codec", "validate", "transform", "construct", "accessor", "rtree"}

func addFree(name string, fn interface{}, kinds ...string) *opEntry {
	e := &opEntry{name: name, family: familyOf(name), fn: reflect.ValueOf(fn), kinds: kinds, vari: reflect.TypeOf(fn).IsVariadic()}
	catalogue = append(catalogue, e)
	return e
}

func buildCatalogue() {
	for _, rt := range recvTypes {
		for i := 0; i < rt.t.NumMethod(); i++ {
			m := rt.t.Method(i)
			if strings.HasPrefix(m.Name, "Verif") {
				continue // our own build-tagged hooks
			}
			e := &opEntry{name: rt.kind + "." + m.Name, recv: rt.kind, fn: m.Func, vari: m.Type.IsVariadic()}
			e.family = familyOf(e.name)
			ok := true
			for j := 1; j < m.Type.NumIn(); j++ {
				k, known := paramKinds[m.Type.In(j).String()]
				if !known {
					catalogueProblems = append(catalogueProblems, fmt.Sprintf("%s: parameter type %s has no synthesiser", e.name, m.Type.In(j)))
					ok = false
				}
				e.kinds = append(e.kinds, k)
			}
			if ok {
				catalogue = append(catalogue, e)
			}
		}
	}
	// free functions
	for _, b := range []struct {
		n string
		f interface{}
	}{{"Union", geom.Union}, {"Intersection", geom.Intersection}, {"Difference", geom.Difference}, {"SymmetricDifference", geom.SymmetricDifference}} {
		addFree(b.n, b.f, "G", "G")
	}
	addFree("UnaryUnion", geom.UnaryUnion, "G")
	addFree("UnionMany", geom.UnionMany, "Gs")
	for _, b := range []struct {
		n string
		f interface{}
	}{{"Relate", geom.Relate}, {"Equals", geom.Equals}, {"Contains", geom.Contains}, {"Covers", geom.Covers}, {"CoveredBy", geom.CoveredBy}, {"Crosses", geom.Crosses},
		{"Disjoint", geom.Disjoint}, {"Overlaps", geom.Overlaps}, {"Touches", geom.Touches}, {"Within", geom.Within}, {"Intersects", geom.Intersects}, {"Distance", geom.Distance}} {
		addFree(b.n, b.f, "G", "G")
	}
	addFree("ExactEquals", geom.ExactEquals, "G", "G", "eeopts")
	addFree("RelateMatches", geom.RelateMatches, "matrix", "pattern")
	addFree("RotatedMinimumAreaBoundingRectangle", geom.RotatedMinimumAreaBoundingRectangle, "G")
	addFree("RotatedMinimumWidthBoundingRectangle", geom.RotatedMinimumWidthBoundingRectangle, "G")
	addFree("MarshalTWKB", geom.MarshalTWKB, "G", "prec", "twkbopts")
	addFree("UnmarshalWKB", geom.UnmarshalWKB, "wkb", "nv")
	addFree("UnmarshalWKT", geom.UnmarshalWKT, "wkt", "nv")
	addFree("UnmarshalGeoJSON", geom.UnmarshalGeoJSON, "geojson", "nv")
	addFree("UnmarshalTWKB", geom.UnmarshalTWKB, "twkb", "nv")
	addFree("UnmarshalTWKBEnvelope", geom.UnmarshalTWKBEnvelope, "twkb")
	addFree("UnmarshalTWKBSize", geom.UnmarshalTWKBSize, "twkb")
	addFree("UnmarshalTWKBIDList", geom.UnmarshalTWKBIDList, "twkb")
	// pointer-receiver adapters, wrapped as functions
	addFree("Geometry.Scan", func(b []byte) (geom.Geometry, error) { var g geom.Geometry; err := g.Scan(b); return g, err }, "wkb")
	addFree("NullGeometry.Scan", func(b []byte) (geom.NullGeometry, error) { var g geom.NullGeometry; err := g.Scan(b); return g, err }, "wkb")
	addFree("Geometry.UnmarshalJSON", func(b []byte) (geom.Geometry, error) { var g geom.Geometry; err := g.UnmarshalJSON(b); return g, err }, "geojson")
	// scanning into a variable that already holds a value (a rows loop reusing
	// one destination): earlier copies of that value must not change
	addFree("Geometry.Scan/into-existing", func(dst geom.Geometry, b []byte) (geom.Geometry, error) { err := dst.Scan(b); return dst, err }, "G", "wkb")
	addFree("Geometry.UnmarshalJSON/into-existing", func(dst geom.Geometry, b []byte) (geom.Geometry, error) {
		err := dst.UnmarshalJSON(b)
		return dst, err
	}, "G", "geojson")
	addFree("NullGeometry.Scan/into-existing", func(dst geom.Geometry, b []byte) (geom.NullGeometry, error) {
		ng := geom.NullGeometry{Geometry: dst, Valid: true}
		err := ng.Scan(b)
		return ng, err
	}, "G", "wkb")
	addFree("Polygon.Scan", func(b []byte) (geom.Polygon, error) { var g geom.Polygon; err := g.Scan(b); return g, err }, "wkb")
	addFree("LineString.UnmarshalJSON", func(b []byte) (geom.LineString, error) {
		var g geom.LineString
		err := g.UnmarshalJSON(b)
		return g, err
	}, "geojson")
	addFree("GeoJSONFeature.UnmarshalJSON", func(b []byte) (geom.Geometry, interface{}, int, error) {
		var f geom.GeoJSONFeature
		err := f.UnmarshalJSON(b)
		return f.Geometry, f.ID, len(f.Properties) + 100*len(f.ForeignMembers), err
	}, "feature")
	addFree("GeoJSONFeatureCollection.UnmarshalJSON", func(b []byte) (int, error) {
		var fc geom.GeoJSONFeatureCollection
		err := fc.UnmarshalJSON(b)
		return len(fc), err
	}, "featurecollection")
	addFree("GeoJSONFeature.MarshalJSON", func(f geom.GeoJSONFeature) ([]byte, error) { return f.MarshalJSON() }, "feat")
	addFree("GeoJSONFeatureCollection.MarshalJSON", func(a, b geom.GeoJSONFeature) ([]byte, error) {
		return geom.GeoJSONFeatureCollection{a, b}.MarshalJSON()
	}, "feat", "feat")
	addFree("GeoJSONFeature.UnmarshalJSON/into-existing", func(dst geom.GeoJSONFeature, b []byte) (geom.GeoJSONFeature, error) {
		err := dst.UnmarshalJSON(b) // dst is a copy of a shared feature: same maps
		return dst, err
	}, "feat", "feature")
	addFree("GeoJSONFeature.roundtrip", func(g geom.Geometry) (geom.Geometry, error) {
		f := geom.GeoJSONFeature{Geometry: g, ID: 3, Properties: map[string]interface{}{"a": 1.0}}
		b, err := f.MarshalJSON()
		if err != nil {
			return geom.Geometry{}, err
		}
		var f2 geom.GeoJSONFeature
		err = f2.UnmarshalJSON(b)
		for i := range b {
			b[i] = '#'
		}
		return f2.Geometry, err
	}, "G")
	addFree("GeoJSONFeatureCollection.roundtrip", func(gs []geom.Geometry) (int, error) {
		fc := make(geom.GeoJSONFeatureCollection, len(gs))
		for i, g := range gs {
			fc[i] = geom.GeoJSONFeature{Geometry: g}
		}
		b, err := fc.MarshalJSON()
		if err != nil {
			return 0, err
		}
		var fc2 geom.GeoJSONFeatureCollection
		err = fc2.UnmarshalJSON(b)
		return len(fc2), err
	}, "Gs")
	// constructors (caller-owned slices are scribbled afterwards)
	addFree("NewGeometryCollection", geom.NewGeometryCollection, "Gs")
	addFree("NewMultiPoint", geom.NewMultiPoint, "pts")
	addFree("NewMultiLineString", geom.NewMultiLineString, "lss")
	addFree("NewPolygon", geom.NewPolygon, "rings")
	addFree("NewMultiPolygon", geom.NewMultiPolygon, "polys")
	addFree("NewLineString", geom.NewLineString, "seq")
	addFree("NewPoint", func(xy geom.XY) geom.Point { return geom.NewPoint(geom.Coordinates{XY: xy, Type: geom.DimXY}) }, "xy")
	addFree("NewEmptyPoint", geom.NewEmptyPoint, "ctype")
	addFree("NewEnvelope", func(a, b geom.XY) geom.Envelope { return geom.NewEnvelope(a, b) }, "xy", "xy")
	addFree("NewInterval", geom.NewInterval, "float", "float")
	addFree("NewPointXY", geom.NewPointXY, "float", "float")
	addFree("NewPointXYZ", geom.NewPointXYZ, "float", "float", "float")
	addFree("NewPointXYM", geom.NewPointXYM, "float", "float", "float")
	addFree("NewPointXYZM", geom.NewPointXYZM, "float", "float", "float", "float")
	seqNoScr := addFree("NewSequence", geom.NewSequence, "floats2", "ctypeXY")
	seqNoScr.noScr = map[int]bool{0: true} // documented: "will be retained ... must NOT be modified"
	addFree("NewLineStringXY", geom.NewLineStringXY, "floats2")
	addFree("NewLineStringXYZ", geom.NewLineStringXYZ, "floats3")
	addFree("NewLineStringXYM", geom.NewLineStringXYM, "floats3")
	addFree("NewLineStringXYZM", geom.NewLineStringXYZM, "floats4")
	addFree("NewMultiPointXY", geom.NewMultiPointXY, "floats2")
	addFree("NewMultiPointXYZ", geom.NewMultiPointXYZ, "floats3")
	addFree("NewMultiPointXYM", geom.NewMultiPointXYM, "floats3")
	addFree("NewMultiPointXYZM", geom.NewMultiPointXYZM, "floats4")
	addFree("NewSingleRingPolygonXY", geom.NewSingleRingPolygonXY, "ring2")
	addFree("NewSingleRingPolygonXYZ", geom.NewSingleRingPolygonXYZ, "ring3")
	addFree("NewSingleRingPolygonXYM", geom.NewSingleRingPolygonXYM, "ring3")
	addFree("NewSingleRingPolygonXYZM", geom.NewSingleRingPolygonXYZM, "ring4")
	addFree("NewMultiLineStringXY", geom.NewMultiLineStringXY, "ffloats2")
	addFree("NewMultiLineStringXYZ", geom.NewMultiLineStringXYZ, "ffloats3")
	addFree("NewMultiLineStringXYM", geom.NewMultiLineStringXYM, "ffloats3")
	addFree("NewMultiLineStringXYZM", geom.NewMultiLineStringXYZM, "ffloats4")
	addFree("NewPolygonXY", geom.NewPolygonXY, "frings2")
	addFree("NewPolygonXYZ", geom.NewPolygonXYZ, "frings3")
	addFree("NewPolygonXYM", geom.NewPolygonXYM, "frings3")
	addFree("NewPolygonXYZM", geom.NewPolygonXYZM, "frings4")
	addFree("NewMultiPolygonXY", geom.NewMultiPolygonXY, "fpolys2")
	addFree("NewMultiPolygonXYZ", geom.NewMultiPolygonXYZ, "fpolys3")
	addFree("NewMultiPolygonXYM", geom.NewMultiPolygonXYM, "fpolys3")
	addFree("NewMultiPolygonXYZM", geom.NewMultiPolygonXYZM, "fpolys4")
	addFree("rtree.BulkLoad", func(items []rtree.BulkItem, q rtree.Box) ([]int, int) {
		t := rtree.BulkLoad(items)
		for i := range items { // the slice is the caller's again
			items[i] = rtree.BulkItem{RecordID: -9}
		}
		var ids []int
		t.RangeSearch(q, func(id int) error { ids = append(ids, id); return nil })
		sort.Ints(ids)
		return ids, t.Count()
	}, "items", "box")
	sort.SliceStable(catalogue, func(i, j int) bool { return catalogue[i].name < catalogue[j].name })
}

// coveredFuncs lists the package-level functions the catalogue exercises, to
// be compared with the exported functions the instrumenter found.
var coveredFuncs = map[string]bool{}
var skippedFuncs = map[string]string{
	"geom.SignedArea":            "area option, exercised through Area(SignedArea)",
	"geom.WithTransform":         "area option, exercised through Area(WithTransform(fn))",
	"geom.IgnoreOrder":           "ExactEquals option, exercised through ExactEquals(.., IgnoreOrder)",
	"geom.ToleranceXY":           "ExactEquals option, exercised through ExactEquals(.., ToleranceXY(t))",
	"geom.TWKBBoundingBoxHeader": "TWKB option, exercised through MarshalTWKB",
	"geom.TWKBCloseRings":        "TWKB option, exercised through MarshalTWKB",
	"geom.TWKBIDList":            "TWKB option, exercised through MarshalTWKB",
	"geom.TWKBPrecisionM":        "TWKB option, exercised through MarshalTWKB",
	"geom.TWKBPrecisionZ":        "TWKB option, exercised through MarshalTWKB",
	"geom.TWKBSizeHeader":        "TWKB option, exercised through MarshalTWKB",
	"geom.NewPoint":              "wrapped (Coordinates argument built by the harness)",
	"geom.NewEnvelope":           "wrapped (variadic XY)",
	"rtree.BulkLoad":             "wrapped (load + search + caller reuses the item slice)",
}

// ---------------------------------------------------------------- op specs

// opSpec is one scripted call: catalogue index, receiver and drawn argument
// parameters. It is plain data so that the reference process can rebuild it.
type opSpec struct {
	Entry    int
	Recv     int
	Args     [][]int
	Scribble bool
}

var floatChoices = []float64{0, 1, 0.5, 2, 2.5, -1, 1e-9, 100, 0.25, 3}
var intChoices = []int{0, 1, 2, 3, -1, 5, 100, 7}

type sentinelErr struct{ n int }

func (s *sentinelErr) Error() string { return fmt.Sprintf("sentinel-%d", s.n) }

// available reports whether the pool has an operand for receiver kind k, and
// how many.
func (p *pool) count(k string) int {
	switch k {
	case "":
		return 1
	case "G":
		return len(p.geoms)
	case "Seq":
		return len(p.seqs)
	case "Env":
		return len(p.envs)
	case "Tree":
		return len(p.trees)
	}
	n := 0
	for _, g := range p.geoms {
		if g.Type().String() == k {
			n++
		}
	}
	return n
}

// sharedBuf returns the sel-th shared document of the given format, or nil
// (sel 0 and selections that land on another format mean "private copy").
func (p *pool) sharedBuf(format string, sel int) []byte {
	if sel <= 0 || len(p.bufs) == 0 {
		return nil
	}
	b := p.bufs[(sel-1)%len(p.bufs)]
	if b.format != format || len(b.b) == 0 {
		return nil
	}
	return b.b
}

func (p *pool) nth(k string, i int) int {
	for gi, g := range p.geoms {
		if g.Type().String() == k {
			if i == 0 {
				return gi
			}
			i--
		}
	}
	return 0
}

func (p *pool) receiver(k string, i int) reflect.Value {
	switch k {
	case "G":
		return reflect.ValueOf(p.geoms[i])
	case "Seq":
		return reflect.ValueOf(p.seqs[i])
	case "Env":
		return reflect.ValueOf(p.envs[i])
	case "Tree":
		return reflect.ValueOf(p.trees[i])
	case "Point":
		return reflect.ValueOf(p.geoms[i].MustAsPoint())
	case "LineString":
		return reflect.ValueOf(p.geoms[i].MustAsLineString())
	case "Polygon":
		return reflect.ValueOf(p.geoms[i].MustAsPolygon())
	case "MultiPoint":
		return reflect.ValueOf(p.geoms[i].MustAsMultiPoint())
	case "MultiLineString":
		return reflect.ValueOf(p.geoms[i].MustAsMultiLineString())
	case "MultiPolygon":
		return reflect.ValueOf(p.geoms[i].MustAsMultiPolygon())
	case "GeometryCollection":
		return reflect.ValueOf(p.geoms[i].MustAsGeometryCollection())
	}
	panic("receiver kind " + k)
}

// drawArg draws the parameters of one argument.
func drawArg(s *vs.Stream, p *pool, kind string) []int {
	S := p.lat.Side + 1
	lat := func(n int) []int {
		out := make([]int, n)
		for i := range out {
			out[i] = s.Intn(S, "a/lat")
		}
		return out
	}
	switch kind {
	case "G":
		return []int{p.pickGeom(s, "a/g")}
	case "Gs":
		n := s.Intn(4, "a/ngs")
		out := make([]int, n)
		for i := range out {
			out[i] = p.pickGeom(s, "a/g")
		}
		return out
	case "seq":
		return []int{s.Intn(len(p.seqs), "a/seq")}
	case "float":
		return []int{s.Intn(len(floatChoices), "a/float")}
	case "int":
		return []int{s.Intn(len(intChoices), "a/int")}
	case "prec":
		return []int{s.Intn(16, "a/prec") - 8}
	case "ctype", "ctypeXY":
		return []int{s.Intn(4, "a/ctype")}
	case "xy":
		return lat(2)
	case "env":
		if s.Intn(2, "a/envpool") == 0 {
			return []int{s.Intn(len(p.envs), "a/env")}
		}
		return lat(4)
	case "box":
		return lat(4)
	case "fnxy":
		return []int{s.Intn(5, "a/fn"), s.Intn(8, "a/fnabort") - 5, s.Intn(12, "a/fnk")}
	case "cb":
		return []int{s.Intn(7, "a/cbkind"), s.Intn(10, "a/cbk")}
	case "dst":
		return []int{s.Intn(3, "a/dst")}
	case "nv":
		return []int{s.Intn(2, "a/nv")}
	case "areaopts":
		return []int{s.Intn(3, "a/area"), s.Intn(5, "a/fn")}
	case "eeopts":
		return []int{s.Intn(4, "a/ee")}
	case "twkbopts":
		return []int{s.Intn(32, "a/twkb"), s.Intn(8, "a/pz"), s.Intn(8, "a/pm")}
	case "wkb", "wkt", "geojson":
		return []int{s.Intn(len(p.geoms), "a/g"), s.Intn(2*len(p.bufs)+1, "a/shared")}
	case "feature", "featurecollection":
		return []int{s.Intn(len(p.geoms), "a/g"), 1 + s.Intn(2*len(p.bufs), "a/shared")}
	case "feat":
		return []int{s.Intn(len(p.feats), "a/feat")}
	case "twkb":
		return []int{s.Intn(len(p.geoms), "a/g"), s.Intn(8, "a/prec"), s.Intn(8, "a/twkb"), s.Intn(2*len(p.bufs)+1, "a/shared")}
	case "matrix", "pattern":
		return []int{s.Intn(len(matrixChoices), "a/mat")}
	case "pts", "lss", "rings", "polys":
		n := s.Intn(4, "a/n")
		return lat(n*6 + 1)
	case "items":
		n := s.Intn(12, "a/n")
		return lat(n * 4)
	}
	if strings.HasPrefix(kind, "floats") || strings.HasPrefix(kind, "ring") {
		n := 1 + s.Intn(5, "a/n")
		return lat(n * 4)
	}
	if strings.HasPrefix(kind, "ffloats") || strings.HasPrefix(kind, "frings") || strings.HasPrefix(kind, "fpolys") {
		n := 1 + s.Intn(3, "a/n")
		return lat(n*8 + 2)
	}
	panic("no drawer for argument kind " + kind)
}

// ---------------------------------------------------------------- execution

// execEnv is the context of one operation execution.
type execEnv struct {
	p      *pool
	site   int
	owned  []reflect.Value // caller-owned buffers (addressable slices) to scribble afterwards
	aborts int64
	cbs    int64
	visits []int // record ids passed to an R-tree callback, in order
}

var matrixChoices = []string{"FF2FF1212", "0FFFFFFF2", "212101212", "T*F**FFF*", "2FFF1FFF2", "bogus", "T*F**FFX*", "2FFF1FFFZ", "FF2FF121Q", "0*******2", "F********", "21210121"}

const (
	siteTransform = -20
	siteTreeCB    = -21
	siteOpBound   = -22
)

func (env *execEnv) own(v reflect.Value) reflect.Value {
	env.owned = append(env.owned, v)
	return v
}

func (env *execEnv) mkFn(a []int) func(geom.XY) geom.XY {
	kind, abortAt, k := a[0], a[1], a[2]
	calls := 0
	sent := &sentinelErr{k}
	return func(xy geom.XY) geom.XY {
		vs.Yield(siteTransform)
		env.cbs++
		calls++
		if abortAt >= 0 && calls-1 == k%(abortAt+1+3) && abortAt < 3 {
			env.aborts++
			panic(sent)
		}
		switch kind {
		case 1:
			return geom.XY{X: xy.X * 2, Y: xy.Y * 2}
		case 2:
			return geom.XY{X: xy.X + 1, Y: xy.Y - 3}
		case 3:
			return geom.XY{X: xy.Y, Y: xy.X}
		case 4:
			return geom.XY{X: -xy.X, Y: xy.Y}
		}
		return xy
	}
}

func (env *execEnv) floats(a []int, dims int, closeRing bool) []float64 {
	p := env.p
	n := len(a) / 2
	out := make([]float64, 0, (n+1)*dims)
	for i := 0; i < n; i++ {
		out = append(out, p.lat.X(a[2*i]), p.lat.Y(a[2*i+1]))
		for d := 2; d < dims; d++ {
			out = append(out, float64(a[2*i]-a[2*i+1]))
		}
	}
	if closeRing && n > 0 {
		out = append(out, out[:dims]...)
	}
	return out
}

// materialise builds a fresh argument value from its drawn parameters.
func (env *execEnv) mat(kind string, a []int, e *opEntry, pos int) reflect.Value {
	p := env.p
	scr := func(v interface{}) reflect.Value {
		rv := reflect.ValueOf(v)
		if e.noScr == nil || !e.noScr[pos] {
			env.own(rv)
		}
		return rv
	}
	switch kind {
	case "G":
		return reflect.ValueOf(p.geoms[a[0]])
	case "Gs":
		gs := make([]geom.Geometry, len(a))
		for i, x := range a {
			gs[i] = p.geoms[x]
		}
		return scr(gs)
	case "seq":
		return reflect.ValueOf(p.seqs[a[0]])
	case "float":
		return reflect.ValueOf(floatChoices[a[0]])
	case "int":
		return reflect.ValueOf(intChoices[a[0]])
	case "prec":
		return reflect.ValueOf(a[0])
	case "ctype":
		return reflect.ValueOf([]geom.CoordinatesType{geom.DimXY, geom.DimXYZ, geom.DimXYM, geom.DimXYZM}[a[0]])
	case "ctypeXY":
		return reflect.ValueOf(geom.DimXY)
	case "xy":
		return reflect.ValueOf(geom.XY{X: p.lat.X(a[0]), Y: p.lat.Y(a[1])})
	case "env":
		if len(a) == 1 {
			return reflect.ValueOf(p.envs[a[0]])
		}
		return reflect.ValueOf(geom.NewEnvelope(geom.XY{X: p.lat.X(a[0]), Y: p.lat.Y(a[1])}, geom.XY{X: p.lat.X(a[2]), Y: p.lat.Y(a[3])}))
	case "box":
		x0, x1 := p.lat.X(minI(a[0], a[2])), p.lat.X(maxI(a[0], a[2]))
		y0, y1 := p.lat.Y(minI(a[1], a[3])), p.lat.Y(maxI(a[1], a[3]))
		return reflect.ValueOf(rtree.Box{MinX: x0, MinY: y0, MaxX: x1, MaxY: y1})
	case "fnxy":
		return reflect.ValueOf(env.mkFn(a))
	case "cb":
		kind, k := a[0], a[1]
		calls := 0
		var want error
		switch kind {
		case 1:
			want = rtree.Stop
		case 2:
			want = fmt.Errorf("wrapped: %w", rtree.Stop)
		case 3:
			want = &sentinelErr{k}
		case 4:
			want = fmt.Errorf("wrapped: %w", &sentinelErr{k})
		}
		return reflect.ValueOf(func(id int) error {
			vs.Yield(siteTreeCB)
			env.cbs++
			env.visits = append(env.visits, id)
			calls++
			if calls-1 >= k {
				if kind == 5 {
					env.aborts++
					panic(&sentinelErr{-k})
				}
				if want != nil {
					env.aborts++
				}
				return want
			}
			return nil
		})
	case "dst":
		switch a[0] {
		case 1: // not scribbled: Append* returns the extended dst by contract
			return reflect.ValueOf([]byte{1, 2, 3})
		case 2:
			b := make([]byte, 3, 4096)
			copy(b, "abc")
			return reflect.ValueOf(b)
		}
		return reflect.ValueOf([]byte(nil))
	case "nv":
		if a[0] == 1 {
			return reflect.ValueOf([]geom.NoValidate{{}})
		}
		return reflect.ValueOf([]geom.NoValidate(nil))
	case "areaopts":
		switch a[0] {
		case 1:
			return reflect.ValueOf([]geom.AreaOption{geom.SignedArea})
		case 2:
			return reflect.ValueOf([]geom.AreaOption{geom.WithTransform(env.mkFn([]int{a[1], -1, 0}))})
		}
		return reflect.ValueOf([]geom.AreaOption(nil))
	case "eeopts":
		var o []geom.ExactEqualsOption
		if a[0]&1 != 0 {
			o = append(o, geom.IgnoreOrder)
		}
		if a[0]&2 != 0 {
			o = append(o, geom.ToleranceXY(0.5))
		}
		return reflect.ValueOf(o)
	case "twkbopts":
		var o []geom.TWKBWriterOption
		if a[0]&1 != 0 {
			o = append(o, geom.TWKBSizeHeader())
		}
		if a[0]&2 != 0 {
			o = append(o, geom.TWKBBoundingBoxHeader())
		}
		if a[0]&4 != 0 {
			o = append(o, geom.TWKBCloseRings())
		}
		if a[0]&8 != 0 {
			o = append(o, geom.TWKBPrecisionZ(a[1]), geom.TWKBPrecisionM(a[2]))
		}
		if a[0]&16 != 0 {
			ids := []int64{5, -3, 100000, 7, 0, 1, 2, 3}
			env.own(reflect.ValueOf(ids))
			o = append(o, geom.TWKBIDList(ids))
		}
		return reflect.ValueOf(o)
	case "wkb", "wkt", "geojson":
		// a shared document of that format (decoded concurrently by several
		// tasks, never scribbled), or a private fresh encoding (scribbled)
		if sh := p.sharedBuf(kind, a[1]); sh != nil {
			if kind == "wkt" {
				return reflect.ValueOf(unsafe.String(&sh[0], len(sh)))
			}
			return reflect.ValueOf(sh)
		}
		switch kind {
		case "wkb":
			return scr(p.geoms[a[0]].AsBinary())
		case "wkt":
			return reflect.ValueOf(p.geoms[a[0]].AsText())
		}
		b, _ := p.geoms[a[0]].MarshalJSON()
		return scr(b)
	case "feat":
		return reflect.ValueOf(p.feats[a[0]])
	case "feature", "featurecollection":
		if sh := p.sharedBuf(kind, a[1]); sh != nil {
			return reflect.ValueOf(sh)
		}
		f := geom.GeoJSONFeature{Geometry: p.geoms[a[0]], ID: "x", Properties: map[string]interface{}{"k": 1.5}}
		var b []byte
		if kind == "feature" {
			b, _ = f.MarshalJSON()
		} else {
			b, _ = geom.GeoJSONFeatureCollection{f, f}.MarshalJSON()
		}
		return scr(b)
	case "twkb":
		if sh := p.sharedBuf(kind, a[3]); sh != nil {
			return reflect.ValueOf(sh)
		}
		var o []geom.TWKBWriterOption
		if a[2]&1 != 0 {
			o = append(o, geom.TWKBSizeHeader())
		}
		if a[2]&2 != 0 {
			o = append(o, geom.TWKBBoundingBoxHeader())
		}
		if a[2]&4 != 0 {
			o = append(o, geom.TWKBIDList([]int64{1, 2, 3, 4}))
		}
		b, err := geom.MarshalTWKB(p.geoms[a[0]], a[1], o...)
		if err != nil {
			b, _ = geom.MarshalTWKB(p.geoms[a[0]], a[1])
		}
		return scr(b)
	case "matrix":
		return reflect.ValueOf(matrixChoices[a[0]%3])
	case "pattern":
		return reflect.ValueOf(matrixChoices[a[0]])
	case "pts":
		n := (len(a) - 1) / 6
		pts := make([]geom.Point, n)
		for i := range pts {
			if a[6*i+2]%5 == 4 {
				pts[i] = geom.NewEmptyPoint(geom.DimXY)
			} else {
				pts[i] = geom.XY{X: p.lat.X(a[6*i]), Y: p.lat.Y(a[6*i+1])}.AsPoint()
			}
		}
		return scr(pts)
	case "lss":
		n := (len(a) - 1) / 6
		ls := make([]geom.LineString, n)
		for i := range ls {
			ls[i] = geom.NewLineString(geom.NewSequence(env.floats(a[6*i:6*i+6], 2, false), geom.DimXY))
		}
		return scr(ls)
	case "rings":
		n := (len(a) - 1) / 6
		ls := make([]geom.LineString, n)
		for i := range ls {
			ls[i] = geom.NewLineString(geom.NewSequence(env.floats(a[6*i:6*i+6], 2, true), geom.DimXY))
		}
		return scr(ls)
	case "polys":
		n := (len(a) - 1) / 6
		ps := make([]geom.Polygon, n)
		for i := range ps {
			ps[i] = geom.NewPolygon([]geom.LineString{geom.NewLineString(geom.NewSequence(env.floats(a[6*i:6*i+6], 2, true), geom.DimXY))})
		}
		return scr(ps)
	case "items":
		n := len(a) / 4
		items := make([]rtree.BulkItem, n)
		for i := range items {
			items[i] = rtree.BulkItem{Box: rtree.Box{MinX: p.lat.X(minI(a[4*i], a[4*i+2])), MinY: p.lat.Y(minI(a[4*i+1], a[4*i+3])), MaxX: p.lat.X(maxI(a[4*i], a[4*i+2])), MaxY: p.lat.Y(maxI(a[4*i+1], a[4*i+3]))}, RecordID: i}
		}
		return reflect.ValueOf(items)
	}
	dims := int(kind[len(kind)-1] - '0')
	switch {
	case strings.HasPrefix(kind, "floats"):
		return scr(env.floats(a, dims, false))
	case strings.HasPrefix(kind, "ring"):
		return scr(env.floats(a, dims, true))
	case strings.HasPrefix(kind, "ffloats"), strings.HasPrefix(kind, "frings"):
		n := (len(a) - 2) / 8
		out := make([][]float64, n)
		for i := range out {
			out[i] = env.floats(a[8*i:8*i+8], dims, strings.HasPrefix(kind, "frings"))
			env.own(reflect.ValueOf(out[i]))
		}
		return scr(out)
	case strings.HasPrefix(kind, "fpolys"):
		n := (len(a) - 2) / 8
		out := make([][][]float64, n)
		for i := range out {
			r := env.floats(a[8*i:8*i+8], dims, true)
			env.own(reflect.ValueOf(r))
			out[i] = [][]float64{r}
			env.own(reflect.ValueOf(out[i]))
		}
		return scr(out)
	}
	panic("no materialiser for argument kind " + kind)
}

func minI(a, b int) int {
	if a < b {
		return a
	}
	return b
}

func maxI(a, b int) int {
	if a > b {
		return a
	}
	return b
}

// scribble overwrites a caller-owned slice with junk of its element type.
func scribble(v reflect.Value) {
	if v.Kind() != reflect.Slice || v.IsNil() {
		return
	}
	// include spare capacity: the caller owns that too
	full := v.Slice(0, v.Cap())
	et := v.Type().Elem()
	var junk reflect.Value
	switch et.Kind() {
	case reflect.Uint8:
		junk = reflect.ValueOf(byte(0xAA))
	case reflect.Float64:
		junk = reflect.ValueOf(-7.77e77)
	case reflect.Int64:
		junk = reflect.ValueOf(int64(-777))
	default:
		junk = reflect.Zero(et)
	}
	for i := 0; i < full.Len(); i++ {
		if et.Kind() == reflect.Slice {
			continue // inner slices are owned separately
		}
		full.Index(i).Set(junk)
	}
}

// opResult is what one execution of an operation produced.
type opResult struct {
	Digest       string
	Retain       []reflect.Value // results to re-digest later
	Fault        string          // store into frozen operand memory (with stack)
	Budget       bool
	Aborts       int64
	CBs          int64
	Retained     bool
	KeptOnly     bool            // results kept without any buffer reuse (not counted as a buffer-reuse fault)
	Geoms        []geom.Geometry // geometry-valued results (candidates for publication to the next epoch)
	RetainDigest string
}

type faultAddr interface{ Addr() uintptr }

// execOp runs one scripted call and digests what it returned.
func execOp(op *opSpec, p *pool, scribbleNow bool) (res opResult) {
	defer func() {
		// Digesting or re-reading a value can itself panic when an operand or
		// a result has been corrupted (e.g. a zeroed member behind an aliased
		// slice): that is a result like any other, not a harness crash.
		if r := recover(); r != nil {
			if _, ok := r.(vs.StepBudgetExceeded); ok {
				res.Budget = true
				res.Digest = "BUDGET"
				return
			}
			res.Digest = "NOT-RETAINED(reading back a returned value panicked after the caller reused its own buffers: " + fmt.Sprint(r) + ")"
		}
	}()
	e := catalogue[op.Entry]
	env := &execEnv{p: p}
	var outs []reflect.Value
	func() {
		defer func() {
			if r := recover(); r != nil {
				if _, ok := r.(vs.StepBudgetExceeded); ok {
					res.Budget = true
					res.Digest = "BUDGET"
					return
				}
				if re, ok := r.(runtime.Error); ok {
					if fa, ok := re.(faultAddr); ok && p.reg.contains(fa.Addr()) {
						buf := make([]byte, 8<<10)
						buf = buf[:runtime.Stack(buf, false)]
						res.Fault = fmt.Sprintf("%v\n%s", r, buf)
						res.Digest = "FAULT"
						return
					}
				}
				var se *sentinelErr
				if err, ok := r.(error); ok && errors.As(err, &se) {
					res.Digest = "P:" + err.Error()
					return
				}
				res.Digest = "P:" + fmt.Sprint(r)
			}
		}()
		var args []reflect.Value
		if e.recv != "" {
			args = append(args, p.receiver(e.recv, op.Recv))
		}
		for i, k := range e.kinds {
			args = append(args, env.mat(k, op.Args[i], e, i))
		}
		if e.vari {
			outs = e.fn.CallSlice(args)
		} else {
			outs = e.fn.Call(args)
		}
		var sb strings.Builder
		for i, o := range outs {
			if i > 0 {
				sb.WriteString(" ; ")
			}
			digest(&sb, o, 0)
			if o.CanInterface() {
				if g, ok := o.Interface().(geom.Geometry); ok {
					res.Geoms = append(res.Geoms, g)
				}
			}
		}
		if len(env.visits) > 0 {
			sb.WriteString(" ; visits")
			sb.WriteString(fmt.Sprint(env.visits))
		}
		res.Digest = sb.String()
	}()
	res.Aborts, res.CBs = env.aborts, env.cbs
	if !scribbleNow && res.Fault == "" && !res.Budget && outs != nil {
		// the caller keeps what it was given (including byte slices) and looks
		// at it again at the end of the run: nothing the library does later may
		// change it
		res.Retain = outs
		var sb strings.Builder
		for _, r := range outs {
			digest(&sb, r, 0)
			sb.WriteByte(';')
		}
		res.RetainDigest = sb.String()
		res.Retained = true
		res.KeptOnly = true
	}
	if scribbleNow && res.Fault == "" && !res.Budget {
		// The call has returned: every buffer the caller passed in, and every
		// slice it received, is the caller's to reuse (database/sql tells
		// scanners a []byte source is only valid until the next call).
		all := func(vals []reflect.Value) string {
			var sb strings.Builder
			for _, r := range vals {
				digest(&sb, r, 0)
				sb.WriteByte(';')
			}
			return sb.String()
		}
		d1 := all(outs)
		for _, b := range env.owned {
			scribble(b)
		}
		if d2 := all(outs); d2 != d1 {
			res.Digest = "NOT-RETAINED(result changed when the caller reused a buffer it had passed in: " + clipS(d1, 300) + " => " + clipS(d2, 300) + ")"
			return res
		}
		for _, o := range outs {
			if o.Kind() == reflect.Slice && o.Type().Elem().Kind() != reflect.Uint8 {
				for i := 0; i < o.Len(); i++ {
					res.Retain = append(res.Retain, reflect.ValueOf(o.Index(i).Interface()))
				}
			} else if o.Kind() != reflect.Slice {
				res.Retain = append(res.Retain, o)
			}
		}
		before := all(res.Retain)
		for _, o := range outs {
			if o.Kind() == reflect.Slice {
				scribble(o)
			}
		}
		res.RetainDigest = all(res.Retain)
		res.Retained = true
		if before != res.RetainDigest {
			res.Digest = "NOT-RETAINED(element changed when the caller reused the slice it had received: " + clipS(before, 300) + " => " + clipS(res.RetainDigest, 300) + ")"
		}
	}
	return res
}
