package main

import (
	"bytes"
	"fmt"
	"syscall"
	"unsafe"

	"github.com/peterstace/simplefeatures/geom"
	"github.com/peterstace/simplefeatures/rtree"
	vs "github.com/peterstace/simplefeatures/verifsim"
	"verifsim.local/sim/gen"
)

// region is anonymous mmap'ed memory used as coordinate storage for pooled
// operands. Once the pool is built it is mprotect'ed read-only, so that any
// store by library code into an operand's coordinates faults at the storing
// instruction (and, with debug.SetPanicOnFault, becomes a recoverable panic).
type region struct {
	mem       []byte
	floats    []float64
	used      int
	frozen    bool
	revisions int
	large     int
	arealGCs  int
	pencils   int
	nOrig     int
	revOf     []int // indices of (original, revision, probe) when a revision exists
	focus     []int // when set, geometry arguments are drawn from these operands only
	heapOut   int   // allocations that did not fit and went to the Go heap
	cursor    [classCount]int
}

// One region per process, reused by every run: like a real allocator's size
// classes, a sequence of n floats is placed where the previous run's sequences
// of n floats were (state a library keys by address — a cache that remembers
// an array's address as a uintptr — then meets a different sequence at a
// known address, exactly as it does after a garbage collection).
var processRegion *region

const (
	regionFloats   = 1 << 21 // 16 MiB of address space; only touched pages cost memory
	classSlots     = 2048    // floats reserved per size class
	classCount     = 512
	generalAreaOff = classSlots * classCount
)

func newRegion(nfloats int) (*region, error) {
	if processRegion == nil {
		mem, err := syscall.Mmap(-1, 0, regionFloats*8, syscall.PROT_READ|syscall.PROT_WRITE, syscall.MAP_ANON|syscall.MAP_PRIVATE)
		if err != nil {
			return nil, err
		}
		processRegion = &region{mem: mem, floats: unsafe.Slice((*float64)(unsafe.Pointer(&mem[0])), regionFloats)}
	}
	r := processRegion
	if err := syscall.Mprotect(r.mem, syscall.PROT_READ|syscall.PROT_WRITE); err != nil {
		return nil, err
	}
	r.frozen = false
	r.used = generalAreaOff
	r.heapOut = 0
	for i := range r.cursor {
		r.cursor[i] = 0
	}
	return r, nil
}

func (r *region) alloc(n int) []float64 {
	if n == 0 {
		return nil
	}
	if r == nil || r.frozen {
		if r != nil {
			r.heapOut++
		}
		return make([]float64, n)
	}
	if n < classCount && r.cursor[n]+n <= classSlots {
		off := n*classSlots + r.cursor[n]
		r.cursor[n] += n
		return zeroed(r.floats[off : off+n : off+n])
	}
	if r.used+n > len(r.floats) {
		r.heapOut++
		return make([]float64, n)
	}
	s := r.floats[r.used : r.used+n : r.used+n]
	r.used += n
	return zeroed(s)
}

// zeroed clears memory the region hands out again (the region is reused by
// every run; what a run leaves behind must not leak into the next one, e.g.
// through a sequence's spare capacity).
func zeroed(s []float64) []float64 {
	for i := range s {
		s[i] = 0
	}
	return s
}

// allocBytes carves a byte buffer out of the region.
func (r *region) allocBytes(n int) []byte {
	if n == 0 {
		return []byte{}
	}
	fs := r.alloc((n + 7) / 8)
	return unsafe.Slice((*byte)(unsafe.Pointer(&fs[0])), n)[:n:n]
}

func (r *region) freeze() error {
	if r == nil {
		return nil
	}
	r.frozen = true
	return syscall.Mprotect(r.mem, syscall.PROT_READ)
}

// release ends a run's use of the region (it stays mapped for the next run).
func (r *region) release() {}

func (r *region) contains(addr uintptr) bool {
	if r == nil || r.mem == nil {
		return false
	}
	base := uintptr(unsafe.Pointer(&r.mem[0]))
	return addr >= base && addr < base+uintptr(len(r.mem))
}

// pool is the set of operands shared by all tasks of a run.
type pool struct {
	lat       gen.Lattice
	reg       *region
	geoms     []geom.Geometry
	seqs      []geom.Sequence
	envs      []geom.Envelope
	trees     []*rtree.RTree
	items     [][]rtree.BulkItem    // what each tree was loaded from (model copy)
	feats     []geom.GeoJSONFeature // shared features (their property maps are shared state)
	pubF      []string
	bufs      []sharedBuf // encoded documents shared by all tasks (in the frozen region)
	pubB      []uint64
	pubG      []string // digests at publication
	pubS      []string
	pubE      []string
	pubT      []uint64
	frozen    bool
	revisions int
	large     int
	arealGCs  int
	pencils   int
	nOrig     int
	revOf     []int // indices of (original, revision, probe) when a revision exists
	focus     []int // when set, geometry arguments are drawn from these operands only
	general   bool
}

// sharedBuf is an encoded document that several tasks decode concurrently
// (a driver row buffer, a mapped file): decoders must only read it.
type sharedBuf struct {
	format string // wkb | wkt | geojson | twkb
	b      []byte
}

func fnv64(b []byte) uint64 {
	h := uint64(14695981039346656037)
	for _, c := range b {
		h ^= uint64(c)
		h *= 1099511628211
	}
	return h
}

func buildPool(m *vs.Stream, freeze bool) (*pool, error) {
	p := &pool{lat: gen.NewLattice(m)}
	if freeze {
		var err error
		if p.reg, err = newRegion(1 << 14); err != nil {
			return nil, err
		}
	}
	ng := 2 + m.Intn(5, "pool/ngeoms")
	zm := m.Intn(4, "pool/zm") == 3
	// operand class: lattice (exact degeneracies are the common case) or
	// general position (every vertex jittered off the lattice; admitted only
	// if the whole pool's arrangement passes the clearance check)
	general := m.Intn(4, "pool/class") == 3
	// one run in sixteen: every line and ring is long (64-100 vertices), for
	// code paths that switch strategy at a size threshold
	longSeqs := m.Intn(16, "pool/longseqs") == 15
	for attempt := 0; ; attempt++ {
		p.geoms = p.geoms[:0]
		for i := 0; i < ng; i++ {
			maxPts := 12
			if m.Intn(8, "pool/longer") == 7 {
				maxPts = 40 // sequences of 64+ floats (size-threshold paths)
			}
			if longSeqs {
				maxPts = 100
			}
			cfg := gen.Cfg{AlwaysLong: longSeqs, MaxPts: maxPts, MaxParts: 3, Depth: 1 + m.Intn(2, "pool/depth"), CTypes: zm, Empties: m.Intn(4, "pool/empties") == 3, SpareCap: true}
			if general {
				cfg.Jitter = 0.3
			}
			if p.reg != nil {
				cfg.Alloc = p.reg.alloc
			}
			g := gen.New(m, p.lat, cfg)
			p.geoms = append(p.geoms, g.Valid(cfg.Depth))
		}
		if !general {
			break
		}
		if gen.ClearanceOK(p.geoms, 1e-6) {
			p.general = true
			break
		}
		if attempt >= 2 {
			general = false // give up: fall back to the lattice class
		}
	}
	// occasionally a collection of 3-6 areal members (sums over members: any
	// dependence of a floating-point accumulation on iteration order)
	if m.Intn(8, "pool/arealgc") == 7 {
		cfg := gen.Cfg{MaxPts: 12, MaxParts: 3, ForceType: 3, SpareCap: true}
		if general {
			cfg.Jitter = 0.3
		}
		if p.reg != nil {
			cfg.Alloc = p.reg.alloc
		}
		var ms []geom.Geometry
		n := 3 + m.Intn(4, "pool/arealgc/n")
		for i := 0; i < n; i++ {
			g := gen.New(m, p.lat, cfg)
			pg := g.Valid(0)
			if pg.IsPolygon() && !pg.IsEmpty() {
				ms = append(ms, pg)
			}
		}
		if len(ms) >= 3 {
			gc := geom.NewGeometryCollection(ms).AsGeometry()
			if !general || gen.ClearanceOK(append(append([]geom.Geometry(nil), p.geoms...), gc), 1e-6) {
				p.geoms = append(p.geoms, gc)
				p.arealGCs++
			}
		}
	}
	// occasionally a "pencil": 3-5 lattice segments that all pass through one
	// point with non-dyadic coordinates (x0+1/3, y0+2/3), split over two
	// operands. The pairwise crossing points are then distinct floats a few ulps
	// apart: concurrent edges, an exact degeneracy of the lattice domain that
	// exercises node snapping (and any dependence of it on iteration order).
	if !general && m.Intn(6, "pool/pencil") == 5 {
		x0, y0 := 1+m.Intn(p.lat.Side-1, "pencil/x"), 1+m.Intn(p.lat.Side-1, "pencil/y")
		k := 3 + m.Intn(3, "pencil/k")
		var a, b []geom.LineString
		for i := 0; i < k; i++ {
			ax, ay := m.Intn(p.lat.Side+1, "pencil/ax"), m.Intn(p.lat.Side+1, "pencil/ay")
			dx, dy := 3*(x0-ax)+1, 3*(y0-ay)+2
			fs := p.reg.alloc(4)
			fs[0], fs[1] = p.lat.X(ax), p.lat.Y(ay)
			fs[2], fs[3] = p.lat.X(ax)+float64(dx)*p.lat.Unit, p.lat.Y(ay)+float64(dy)*p.lat.Unit
			ls := geom.NewLineString(geom.NewSequence(fs, geom.DimXY))
			if i%2 == 0 {
				a = append(a, ls)
			} else {
				b = append(b, ls)
			}
		}
		ga, gb := geom.NewMultiLineString(a).AsGeometry(), geom.NewMultiLineString(b).AsGeometry()
		if ga.Validate() == nil && gb.Validate() == nil {
			p.geoms = append(p.geoms, ga, gb)
			p.pencils++
		}
	}
	// occasionally one large operand: a grid of 36-49 disjoint unit squares
	// (algorithms that switch strategy at a size threshold, ties between equal
	// members) or a MultiPoint of 40 points
	if !general && m.Intn(12, "pool/large") == 11 {
		if m.Intn(3, "pool/largekind") == 0 {
			pts := make([]geom.Point, 40)
			for i := range pts {
				pts[i] = geom.XY{X: p.lat.X(i % 8), Y: p.lat.Y(i / 8)}.AsPoint()
			}
			p.geoms = append(p.geoms, geom.NewMultiPoint(pts).AsGeometry())
		} else {
			side := 6 + m.Intn(2, "pool/gridside")
			var polys []geom.Polygon
			for i := 0; i < side*side; i++ {
				x, y := float64(2*(i%side))*p.lat.Unit+p.lat.OffX, float64(2*(i/side))*p.lat.Unit+p.lat.OffY
				fs := p.reg.alloc(10)
				copy(fs, []float64{x, y, x + p.lat.Unit, y, x + p.lat.Unit, y + p.lat.Unit, x, y + p.lat.Unit, x, y})
				polys = append(polys, geom.NewPolygon([]geom.LineString{geom.NewLineString(geom.NewSequence(fs, geom.DimXY))}))
			}
			p.geoms = append(p.geoms, geom.NewMultiPolygon(polys).AsGeometry())
		}
		p.large++
	}
	// a "revision" of one operand: same vertex count, same first and last
	// segments, one interior vertex moved (two versions of a track or parcel)
	if m.Intn(3, "pool/revision") == 2 {
		for _, g := range p.geoms {
			if r, probe, ok := revise(m, p, g); ok {
				p.revOf = []int{indexOf(p.geoms, g), len(p.geoms), len(p.geoms) + 1}
				p.geoms = append(p.geoms, r, probe)
				p.revisions++
				break
			}
		}
	}
	for _, g := range p.geoms {
		p.envs = append(p.envs, g.Envelope())
		if g.IsLineString() {
			p.seqs = append(p.seqs, g.MustAsLineString().Coordinates())
		} else if g.IsPolygon() && !g.IsEmpty() {
			p.seqs = append(p.seqs, g.MustAsPolygon().ExteriorRing().Coordinates())
		}
	}
	if len(p.seqs) == 0 {
		fs := p.reg.alloc(6)
		copy(fs, []float64{p.lat.X(0), p.lat.Y(0), p.lat.X(1), p.lat.Y(2), p.lat.X(3), p.lat.Y(1)})
		p.seqs = append(p.seqs, geom.NewSequence(fs, geom.DimXY))
	}
	p.envs = append(p.envs, geom.Envelope{}, geom.NewEnvelope(geom.XY{X: p.lat.X(1), Y: p.lat.Y(1)}, geom.XY{X: p.lat.X(3), Y: p.lat.Y(2)}))
	nt := m.Intn(3, "pool/ntrees")
	for t := 0; t < nt; t++ {
		n := m.Intn(41, "pool/treesize")
		items := make([]rtree.BulkItem, n)
		for i := range items {
			x, y := m.Intn(p.lat.Side+1, "bx"), m.Intn(p.lat.Side+1, "by")
			w, h := m.Intn(4, "bw"), m.Intn(4, "bh")
			items[i] = rtree.BulkItem{Box: rtree.Box{MinX: p.lat.X(x), MinY: p.lat.Y(y), MaxX: p.lat.X(x + w), MaxY: p.lat.Y(y + h)}, RecordID: i}
		}
		p.items = append(p.items, append([]rtree.BulkItem(nil), items...))
		tr := rtree.BulkLoad(items)
		// caller-side buffer reuse: the slice handed to BulkLoad is ours again
		for i := range items {
			items[i] = rtree.BulkItem{Box: rtree.Box{MinX: -1e9, MinY: -1e9, MaxX: -1e9, MaxY: -1e9}, RecordID: -7}
		}
		p.trees = append(p.trees, tr)
	}
	// shared GeoJSON features: a feature value is copied freely, its maps are not
	for i := 0; i < 2 && i < len(p.geoms); i++ {
		f := geom.GeoJSONFeature{Geometry: p.geoms[i], ID: []interface{}{"id-1", 7.0}[i],
			Properties: map[string]interface{}{"name": "x", "n": 1.5, "nested": map[string]interface{}{"a": []interface{}{1.0, "b"}}}}
		if i == 0 {
			f.ForeignMembers = map[string]interface{}{"geometry_name": "g", "zoom": 3.0}
		} else {
			f.ForeignMembers = map[string]interface{}{"id": "shadow", "crs": nil}
		}
		p.feats = append(p.feats, f)
	}
	// shared encoded documents: real encodings of pool geometries (WKB also
	// big- and mixed-endian, as foreign producers emit) and grammar-generated
	// text documents no encoder emits
	addBuf := func(format string, b []byte) {
		dst := p.reg.allocBytes(len(b))
		copy(dst, b)
		p.bufs = append(p.bufs, sharedBuf{format, dst})
	}
	for i, g := range p.geoms {
		if i >= 3 {
			break
		}
		wkb := g.AsBinary()
		switch m.Intn(3, "buf/endian") {
		case 0:
			addBuf("wkb", wkb)
		case 1:
			if f := gen.ScanWKB(wkb); f != nil {
				wkb = gen.FlipEndian(wkb, f, false, m)
			}
			addBuf("wkb", wkb)
		default:
			if f := gen.ScanWKB(wkb); f != nil {
				wkb = gen.FlipEndian(wkb, f, true, m)
			}
			addBuf("wkb", wkb)
		}
		switch m.Intn(3, "buf/text") {
		case 0:
			// tags in upper, lower or mixed case (all legal WKT)
			txt := []byte(g.AsText())
			switch m.Intn(3, "buf/case") {
			case 1:
				txt = bytes.ToLower(txt)
			case 2:
				txt = bytes.Title(bytes.ToLower(txt))
			}
			addBuf("wkt", txt)
		case 1:
			js, _ := g.MarshalJSON()
			addBuf("geojson", js)
		default:
			if tw, err := geom.MarshalTWKB(g, m.Intn(4, "buf/prec"), geom.TWKBBoundingBoxHeader(), geom.TWKBSizeHeader()); err == nil {
				addBuf("twkb", tw)
			}
		}
	}
	// a complete geometry followed by a stray token (an error path of its own)
	if len(p.geoms) > 0 {
		addBuf("wkt", []byte(p.geoms[0].AsText()+[]string{" )", " x", " POINT(1 2)", ","}[m.Intn(4, "buf/trailing")]))
	}
	for i := 0; i < 2; i++ {
		addBuf("geojson", []byte(gen.GrammarGeoJSON(m, 2)))
		addBuf("wkt", []byte(gen.GrammarWKT(m, 2)))
	}
	// a structurally sound but OGC-invalid polygon (holes touching each other
	// and the shell at lattice points): decoders that validate must report the
	// same error every time
	{
		ig := gen.New(m, p.lat, gen.Cfg{MaxPts: 12, MaxParts: 3, Invalid: true, ForceType: 3})
		bad := ig.TouchingHolesPolygon()
		if m.Intn(2, "buf/badfmt") == 0 {
			addBuf("wkt", []byte(bad.AsText()))
		} else {
			js, _ := bad.MarshalJSON()
			addBuf("geojson", js)
		}
	}
	addBuf("feature", []byte(gen.GrammarFeature(m)))
	addBuf("featurecollection", []byte(`{"type":"FeatureCollection","features":[`+gen.GrammarFeature(m)+`,`+gen.GrammarFeature(m)+`]}`))
	if err := p.reg.freeze(); err != nil {
		return nil, err
	}
	p.frozen = p.reg != nil
	for _, g := range p.geoms {
		p.pubG = append(p.pubG, digestOf(g))
	}
	p.nOrig = len(p.pubG)
	for _, s := range p.seqs {
		p.pubS = append(p.pubS, digestOf(s))
	}
	for _, e := range p.envs {
		p.pubE = append(p.pubE, digestOf(e))
	}
	for _, t := range p.trees {
		p.pubT = append(p.pubT, fnv64(t.VerifShape()))
	}
	for _, b := range p.bufs {
		p.pubB = append(p.pubB, fnv64(b.b))
	}
	for _, f := range p.feats {
		p.pubF = append(p.pubF, digestOf(f))
	}
	return p, nil
}

// verify re-digests every shared operand; it returns a description of the
// first one that changed.
func (p *pool) verify() (msg string) {
	defer func() {
		// a corrupted operand may make its own accessors panic
		if r := recover(); r != nil {
			msg = fmt.Sprintf("a shared operand can no longer be read: digesting it panicked: %v", r)
		}
	}()
	for i, b := range p.bufs {
		if fnv64(b.b) != p.pubB[i] {
			return fmt.Sprintf("shared %s input buffer %d changed", b.format, i)
		}
	}
	for i, f := range p.feats {
		if d := digestOf(f); d != p.pubF[i] {
			return fmt.Sprintf("feature operand %d changed: was %s now %s", i, clipS(p.pubF[i], 300), clipS(d, 300))
		}
	}
	for i, g := range p.geoms {
		if d := digestOf(g); d != p.pubG[i] {
			return fmt.Sprintf("geometry operand %d changed: was %s now %s", i, clipS(p.pubG[i], 300), clipS(d, 300))
		}
	}
	for i, s := range p.seqs {
		if d := digestOf(s); d != p.pubS[i] {
			return fmt.Sprintf("sequence operand %d changed: was %s now %s", i, clipS(p.pubS[i], 300), clipS(d, 300))
		}
	}
	for i, e := range p.envs {
		if d := digestOf(e); d != p.pubE[i] {
			return fmt.Sprintf("envelope operand %d changed: was %s now %s", i, p.pubE[i], d)
		}
	}
	for i, t := range p.trees {
		if fnv64(t.VerifShape()) != p.pubT[i] {
			return fmt.Sprintf("R-tree operand %d changed (shape dump differs)", i)
		}
	}
	return ""
}

func clipS(s string, n int) string {
	if len(s) > n {
		return s[:n] + "…"
	}
	return s
}

// revise returns a valid geometry that differs from g in exactly one interior
// vertex of its (first) line or exterior ring.
func indexOf(gs []geom.Geometry, g geom.Geometry) int {
	for i := range gs {
		if gs[i] == g {
			return i
		}
	}
	return 0
}

// pickGeom draws a geometry operand index (from the focus set, if any).
func (p *pool) pickGeom(s *vs.Stream, label string) int {
	if len(p.focus) > 0 {
		return p.focus[s.Intn(len(p.focus), label)]
	}
	return s.Intn(len(p.geoms), label)
}

func revise(m *vs.Stream, p *pool, g geom.Geometry) (geom.Geometry, geom.Geometry, bool) {
	var seq geom.Sequence
	switch {
	case g.IsLineString():
		seq = g.MustAsLineString().Coordinates()
	case g.IsPolygon() && !g.IsEmpty():
		seq = g.MustAsPolygon().ExteriorRing().Coordinates()
	default:
		return geom.Geometry{}, geom.Geometry{}, false
	}
	n := seq.Length()
	if n < 6 {
		return geom.Geometry{}, geom.Geometry{}, false
	}
	d := seq.CoordinatesType().Dimension()
	fs := p.reg.alloc(n * d)
	for i := 0; i < n; i++ {
		c := seq.Get(i)
		fs[i*d], fs[i*d+1] = c.X, c.Y
		if d > 2 {
			fs[i*d+2] = c.Z
			if seq.CoordinatesType() == geom.DimXYM {
				fs[i*d+2] = c.M
			}
		}
		if d > 3 {
			fs[i*d+3] = c.M
		}
	}
	k := 2 + m.Intn(n-4, "rev/k")
	fs[k*d] += p.lat.Unit * float64(1+m.Intn(2, "rev/dx"))
	fs[k*d+1] -= p.lat.Unit * float64(m.Intn(2, "rev/dy"))
	ns := geom.NewSequence(fs, seq.CoordinatesType())
	var r geom.Geometry
	if g.IsLineString() {
		r = geom.NewLineString(ns).AsGeometry()
	} else {
		rings := g.MustAsPolygon().DumpRings()
		rings[0] = geom.NewLineString(ns)
		r = geom.NewPolygon(rings).AsGeometry()
	}
	if r.Validate() != nil {
		return geom.Geometry{}, geom.Geometry{}, false
	}
	// probe: a zigzag with more segments than the revision, confined to half
	// a lattice unit around the moved vertex and starting exactly there, so
	// that it meets the revision where (and only near where) it differs from
	// the original
	ms := 2*n + 2
	pf := p.reg.alloc(2 * (ms + 1))
	h := p.lat.Unit / 2
	for j := 0; j <= ms; j++ {
		x := fs[k*d]
		if j%2 == 1 {
			x += 0.8 * h
		}
		pf[2*j], pf[2*j+1] = x, fs[k*d+1]+h*float64(j)/float64(ms)
	}
	probe := geom.NewLineString(geom.NewSequence(pf, geom.DimXY)).AsGeometry()
	return r, probe, true
}

// inDomain reports whether g may join the operand pool: the property
// quantifies over C01's domain only — valid geometries whose ordinates are
// lattice values with |c| <= 2^10, or general-position geometries whose joint
// arrangement with the other operands keeps the stated clearance. A result of
// an earlier call (say, a decoded foreign document with ordinates like 1e308,
// or an overlay result with rational, non-lattice vertices) is usually NOT in
// that domain, and outside it the library is allowed to fail in ways that
// need not be reproducible.
func (p *pool) inDomain(g geom.Geometry) bool {
	seq := g.DumpCoordinates()
	n := seq.Length()
	for i := 0; i < n; i++ {
		xy := seq.GetXY(i)
		for _, c := range []float64{xy.X, xy.Y} {
			if !(c >= -1024 && c <= 1024) {
				return false
			}
			if !p.general {
				q := c / p.lat.Unit
				if q != float64(int64(q)) {
					return false
				}
			}
		}
	}
	if p.general {
		return gen.ClearanceOK(append(append([]geom.Geometry(nil), p.geoms...), g), 1e-6)
	}
	return true
}
