// Command c10 is the simulation engine for property C10: geometries are
// immutable values; operations are pure, deterministic and race-free.
// See DESIGN.md §3.2.
package main

import (
	"bufio"
	"encoding/json"
	"fmt"
	"os"
	"os/exec"
	"regexp"
	"runtime"
	"runtime/debug"
	"sort"
	"strings"
	"syscall"

	vs "github.com/peterstace/simplefeatures/verifsim"
	"verifsim.local/sim/simkit"
)

var raceBuild = false // set in race.go under the race build tag

func main() {
	buildCatalogue()
	loadSites()
	debug.SetPanicOnFault(true)
	if len(os.Args) >= 2 && (os.Args[1] == "worker" || os.Args[1] == "refserver" || os.Args[1] == "eventlog") {
		// The garbage collector is a seam the simulator owns: no automatic
		// collections while a run is in progress (finalizers and pool clearing
		// would otherwise happen at moments no seed decides); collections happen
		// at seeded context switches (forced-gc) and between runs. The soft memory
		// limit is a safety net only.
		debug.SetGCPercent(-1)
		debug.SetMemoryLimit(3 << 30)
		if os.Getenv("GOMAXPROCS") == "" {
			// one task runs at a time; with 16 workers x 16 Ps a forced
			// collection costs ~8 ms, with 2 Ps ~0.2 ms
			runtime.GOMAXPROCS(2)
		}
	}
	if len(os.Args) >= 2 && (os.Args[1] == "worker" || os.Args[1] == "refserver") && !raceBuild {
		// a runaway allocation must kill this worker, not the machine
		lim := syscall.Rlimit{Cur: 6 << 30, Max: 6 << 30}
		syscall.Setrlimit(syscall.RLIMIT_AS, &lim)
	}
	if len(os.Args) >= 2 && os.Args[1] == "refserver" {
		vs.SetDegraded(degraded())
		refServer()
		return
	}
	if len(os.Args) >= 2 && os.Args[1] == "catalogue" {
		for _, e := range catalogue {
			fmt.Println(e.name, e.family, e.kinds)
		}
		for _, p := range catalogueProblems {
			fmt.Println("PROBLEM", p)
		}
		return
	}
	vs.SetDegraded(degraded())
	if msg := checkCatalogue(); msg != "" {
		fmt.Println("MACHINERY-TROUBLE C10: " + msg)
		os.Exit(2)
	}
	simkit.Main(&engine{})
}

type engine struct{}

func (*engine) ID() string { return "C10" }

// degraded reports that the instrumenter found concurrency inside the library
// that the baton cannot own (go statements, channels, select, WaitGroup, Cond).
// The pinned tree has none. If a change introduces some, tasks are no longer
// preempted inside operations and no map-order choices are drawn (foreign
// goroutines would draw concurrently); results are still compared across the
// reference, repeated, task and cross-process executions, and the evidence
// says simulation_degraded.
func degraded() bool { return len(instrDegraded) > 0 }

// FreshWorkerPerChunk: every chunk of runs starts in a new worker process, so
// that "first use in this process" (lazy initialisation, cold caches) happens
// many times per batch, half of the time under concurrency.
func (*engine) FreshWorkerPerChunk() bool { return true }

// StatisticalReplay implements simkit.StatisticalReplayer.
func (*engine) StatisticalReplay() bool { return degraded() }

func (*engine) Plan(tier string) int64 {
	if raceBuild {
		if tier == "thorough" {
			return 100000
		}
		return 5000
	}
	if tier == "thorough" {
		return 1000000
	}
	return 30000
}

func (*engine) Describe() simkit.Description {
	build := "plain build (all value oracles, frozen operand memory)"
	if raceBuild {
		build = "race build (-race, detector-invisible baton, park-and-sweep schedules; half of the pools in frozen memory, half on the Go heap)"
	}
	return simkit.Description{
		Level: "exploration",
		Rule: "One run = a seeded pool of shared operands (2-6 valid lattice geometries of all seven types, sequences, envelopes, 0-2 bulk-loaded R-trees; coordinates in mprotect'ed memory) and 2-16 simulated caller goroutines, " +
			"each executing a seeded script of 1-6 calls drawn from the whole public API (methods enumerated by reflection, free functions from a table checked against the package's exported functions), under the seeded baton scheduler " +
			"(yield points at every function entry and loop head of geom and rtree, in callbacks, and between calls) with a seeded iteration order for every range-over-map executed (canonical / reversed / rotated / full permutation), forced GCs, " +
			"scripted callback aborts and caller-side buffer reuse after calls return. Every result is compared bit-for-bit with the same call executed alone under canonical order (R1) and, for a third of the runs, with the un-instrumented library in another process (R2, executed twice). " +
			"distinct_nontrivial counts distinct (operation-family multiset, interleaving hash, map-order hash) triples among runs with at least one context switch inside an in-flight operation or at least one non-canonical map iteration; runs with neither are trivial. " + build,
		Assumptions: []string{
			"The instrumenter's rewrites (yield insertion, map-range seam, pointer-key tagging) preserve semantics; cross-checked on a third of the runs against the un-instrumented library in a separate process.",
			"Operand domain: valid geometries on a small integer lattice (|c| <= 2^10), <= ~48 vertices each, so that coincident vertices and collinear overlaps are the common case.",
			"Every map iteration order produced by the seam is an order the Go language allows.",
			"NewSequence documents that it retains its argument; that buffer is exempt from caller-side reuse. All other caller-owned buffers are scribbled after the call returns.",
		},
		Real:      []string{"geom (entire package, AST-instrumented)", "rtree (entire package, AST-instrumented)"},
		Simulated: []string{"caller goroutines (seeded baton scheduler)", "map iteration order (seeded per range invocation)", "user callbacks (TransformXY / WithTransform / R-tree search callbacks: yields, aborts)", "garbage collector timing (forced GC at switches)", "caller buffer reuse", "logical step clock"},
		Stubbed:   []string{},
		Extra:     map[string]interface{}{"race_build": raceBuild, "catalogue_operations": len(catalogue), "simulation_degraded": degraded(), "simulation_degraded_because": instrDegraded},
	}
}

// Finish lists catalogue operations the batch never executed and folds the
// per-operation counters into one map.
func (e *engine) Finish(stats, max map[string]int64, cov map[string]interface{}) {
	per := map[string]int64{}
	for k, v := range stats {
		if strings.HasPrefix(k, "op/") {
			per[k[3:]] = v
		}
	}
	var never []string
	for _, ent := range catalogue {
		if per[ent.name] == 0 {
			never = append(never, ent.name)
		}
	}
	if c, ok := cov["counters"].(map[string]int64); ok {
		for k := range c {
			if strings.HasPrefix(k, "op/") {
				delete(c, k)
			}
		}
	}
	cov["operations_executed_per_catalogue_entry_min"] = func() int64 {
		m := int64(-1)
		for _, ent := range catalogue {
			if v := per[ent.name]; m < 0 || v < m {
				m = v
			}
		}
		return m
	}()
	cov["catalogue_operations_never_executed"] = never
	cov["catalogue_operations_executed"] = len(catalogue) - len(never)
}

// ---------------------------------------------------------------- sites

type siteInfo struct {
	ID   int    `json:"id"`
	Pkg  string `json:"pkg"`
	File string `json:"file"`
	Line int    `json:"line"`
	Func string `json:"func"`
	Kind string `json:"kind"`
}

var sites []siteInfo
var exportedFuncs []string
var instrDegraded []string

func loadSites() {
	p := os.Getenv("VERIF_SITES")
	if p == "" {
		return
	}
	b, err := os.ReadFile(p)
	if err != nil {
		return
	}
	var rep struct {
		Sites    []siteInfo `json:"sites"`
		Exported []string   `json:"exported_funcs"`
		Degraded []string   `json:"degraded"`
	}
	if json.Unmarshal(b, &rep) == nil {
		sites = rep.Sites
		exportedFuncs = rep.Exported
		instrDegraded = rep.Degraded
	}
}

func siteClass(id int) string {
	switch id {
	case siteTransform:
		return "callback-transform"
	case siteTreeCB:
		return "callback-rtree"
	case siteOpBound:
		return "between-ops"
	case -1:
		return "task-end"
	case -2:
		return "lock-wait"
	}
	if id < 0 || id >= len(sites) {
		return "library"
	}
	s := sites[id]
	switch {
	case strings.HasPrefix(s.File, "dcel"):
		return "overlay"
	case s.Pkg == "rtree":
		return "rtree"
	case strings.Contains(s.Func, "alidate") || s.File == "graph.go":
		return "validate"
	case strings.HasPrefix(s.File, "wk") || strings.HasPrefix(s.File, "twkb") || strings.HasPrefix(s.File, "geojson"):
		return "codec"
	}
	return "library"
}

// checkCatalogue makes the claim "whole public API" checkable: every exported
// package-level function the instrumenter found must be in the table or in
// the justified skip list.
func checkCatalogue() string {
	if len(catalogueProblems) > 0 {
		return "operation table cannot synthesise arguments: " + strings.Join(catalogueProblems, "; ")
	}
	have := map[string]bool{}
	for _, e := range catalogue {
		if e.recv == "" {
			have["geom."+e.name] = true
		}
	}
	var missing []string
	for _, f := range exportedFuncs {
		if !have[f] && skippedFuncs[f] == "" {
			missing = append(missing, f)
		}
	}
	if len(missing) > 0 {
		return "exported functions neither in the operation table nor in the skip list: " + strings.Join(missing, ", ")
	}
	return ""
}

// ---------------------------------------------------------------- scenario

type scenario struct {
	p       *pool
	scripts [][]opSpec
	nt      int
	weights map[string]int
	focus   bool
	byFam   map[string][]int
	maxOps  int
	epochs  int
}

func (sc *scenario) release() { sc.p.reg.release() }

func genOp(s *vs.Stream, p *pool, byFam map[string][]int, fams []string, weights map[string]int) opSpec {
	tot := 0
	for _, f := range fams {
		tot += weights[f]
	}
	for try := 0; try < 20; try++ {
		c := s.Intn(tot, "op/family")
		fam := fams[0]
		for _, f := range fams {
			if c < weights[f] {
				fam = f
				break
			}
			c -= weights[f]
		}
		cand := byFam[fam]
		if len(cand) == 0 {
			continue
		}
		ei := cand[s.Intn(len(cand), "op/entry")]
		e := catalogue[ei]
		n := p.count(e.recv)
		if n == 0 {
			continue
		}
		op := opSpec{Entry: ei}
		if e.recv != "" {
			k := s.Intn(n, "op/recv")
			switch e.recv {
			case "G":
				op.Recv = p.pickGeom(s, "op/recvg")
			case "Seq", "Env", "Tree":
				op.Recv = k
			default:
				op.Recv = p.nth(e.recv, k)
			}
		}
		for _, kd := range e.kinds {
			op.Args = append(op.Args, drawArg(s, p, kd))
		}
		op.Scribble = s.Intn(2, "op/scribble") == 1
		return op
	}
	// fallback: Geometry.AsText on operand 0
	for i, e := range catalogue {
		if e.name == "G.AsText" {
			return opSpec{Entry: i}
		}
	}
	return opSpec{}
}

func makeScenario(src *vs.Source, tier string, idx int64) (*scenario, error) {
	m := src.Stream("main")
	freeze := true
	if raceBuild {
		freeze = m.Intn(2, "freeze") == 1
	}
	p, err := buildPool(m, freeze)
	if err != nil {
		return nil, err
	}
	sc := &scenario{p: p, weights: map[string]int{}}
	switch c := m.Intn(10, "ntasks/class"); {
	case c < 4:
		sc.nt = 2
	case c < 7:
		sc.nt = 3 + m.Intn(2, "ntasks")
	case c < 9:
		sc.nt = 5 + m.Intn(4, "ntasks")
	default:
		sc.nt = 9 + m.Intn(8, "ntasks")
	}
	if raceBuild && sc.nt > 6 {
		sc.nt = 6
	}
	byFam := map[string][]int{}
	for i, e := range catalogue {
		byFam[e.family] = append(byFam[e.family], i)
		// decoders are few among ~400 operations but are where parsers keep
		// state (pools, caches, scratch buffers): give them six more tickets
		if strings.HasPrefix(e.name, "Unmarshal") || strings.Contains(e.name, ".Scan") || strings.Contains(e.name, "UnmarshalJSON") {
			for k := 0; k < 6; k++ {
				byFam[e.family] = append(byFam[e.family], i)
			}
		}
	}
	tot := 0
	for _, f := range families {
		w := []int{0, 1, 1, 4}[m.Intn(4, "famw")]
		if f == "overlay" || f == "predicate" {
			w *= 2
		}
		sc.weights[f] = w
		tot += w
	}
	if tot == 0 {
		sc.weights["overlay"] = 1
	}
	maxOps := 6
	if raceBuild {
		maxOps = 3
	}
	// focus mode: all tasks work on a small subset of the operands (the
	// original, its revision and the probe, when the pool has a revision) with
	// a small set of binary operations: state carried from one call to the
	// next (a cache keyed too coarsely) shows as a history-dependent result.
	if m.Intn(4, "focus") == 3 {
		if len(p.revOf) == 3 {
			p.focus = append([]int(nil), p.revOf...)
		} else {
			a := m.Intn(len(p.geoms), "focus/a")
			p.focus = []int{a, m.Intn(len(p.geoms), "focus/b")}
		}
		for _, f := range families {
			sc.weights[f] = 0
		}
		sc.weights["predicate"] = 6
		sc.weights["overlay"] = 2
		sc.weights["validate"] = 1
		res := map[string][]int{}
		for _, f := range []string{"predicate", "overlay", "validate"} {
			c := byFam[f]
			for k := 0; k < 2 && len(c) > 0; k++ {
				res[f] = append(res[f], c[m.Intn(len(c), "focus/op")])
			}
		}
		byFam = res
		sc.focus = true
	}
	sc.byFam, sc.maxOps = byFam, maxOps
	// epochs: at an epoch boundary all tasks join and some results of the
	// epoch are published as shared operands of the next one (pipelines:
	// decode -> set operation -> encode, shared downstream)
	sc.epochs = []int{1, 1, 1, 2, 2, 3}[m.Intn(6, "epochs")]
	sc.genScripts(src, "", m.Intn(6, "hammer") == 5)
	return sc, nil
}

// genScripts draws one script per task from the streams "s<i><suffix>".
func (sc *scenario) genScripts(src *vs.Source, suffix string, hammer bool) {
	p := sc.p
	var shared opSpec
	if hammer { // every task hammers the same operation
		shared = genOp(src.Stream("s-shared"+suffix), p, sc.byFam, families, sc.weights)
	}
	sc.scripts = nil
	for t := 0; t < sc.nt; t++ {
		ss := src.Stream(fmt.Sprintf("s%d%s", t, suffix))
		n := 1 + ss.Intn(sc.maxOps, "nops")
		var script []opSpec
		for i := 0; i < n; i++ {
			if hammer && ss.Intn(2, "hammer") == 0 {
				script = append(script, shared)
			} else {
				script = append(script, genOp(ss, p, sc.byFam, families, sc.weights))
			}
		}
		sc.scripts = append(sc.scripts, script)
	}
}

// publish makes up to three geometry results of the finished epoch shared
// operands of the next one and points the scripts at them.
func (sc *scenario) publish(ref [][]opResult) int {
	p := sc.p
	var fresh []int
	for _, rs := range ref {
		for _, r := range rs {
			for _, g := range r.Geoms {
				if len(fresh) >= 3 {
					break
				}
				if g.IsEmpty() || g.DumpCoordinates().Length() > 80 || g.Validate() != nil || !p.inDomain(g) {
					continue
				}
				d := digestOf(g)
				dup := false
				for _, have := range p.pubG {
					if have == d {
						dup = true
					}
				}
				if dup {
					continue
				}
				fresh = append(fresh, len(p.geoms))
				p.geoms = append(p.geoms, g)
				p.pubG = append(p.pubG, d)
				p.envs = append(p.envs, g.Envelope())
				p.pubE = append(p.pubE, digestOf(g.Envelope()))
			}
		}
	}
	if len(fresh) > 0 {
		p.focus = append(fresh, 0)
	}
	return len(fresh)
}

func opString(op *opSpec) string {
	e := catalogue[op.Entry]
	return fmt.Sprintf("%s(recv=%d args=%v scribble=%v)", e.name, op.Recv, op.Args, op.Scribble)
}

// ---------------------------------------------------------------- run

const opBudget = 3_000_000

type taskLog struct {
	res []opResult
}

func (e *engine) Run(src *vs.Source, tier string, idx int64) (res *simkit.RunResult) {
	res = &simkit.RunResult{Stats: map[string]int64{}, Max: map[string]int64{}}
	var thePool *pool
	defer vs.CollectNow() // between runs (automatic collection is off): collect and let finalizers finish
	defer func() {
		// The oracle reads operands and results through the library; if one
		// of them has been corrupted those reads can panic. That is a
		// violation (operand changed) if the pool no longer verifies, and
		// harness trouble otherwise.
		if r := recover(); r != nil {
			buf := make([]byte, 8<<10)
			buf = buf[:runtime.Stack(buf, false)]
			msg := ""
			if thePool != nil {
				msg = thePool.verify()
			}
			if msg != "" {
				res.Violations = []simkit.Violation{{Class: "operand-changed", Sig: "operand-changed/unreadable", Detail: fmt.Sprintf("operand-changed/unreadable: %s; the oracle panicked reading it: %v\n%s", msg, r, buf)}}
			} else {
				res.Violations = []simkit.Violation{{Class: "machinery", Sig: "machinery/oracle-panic", Detail: fmt.Sprintf("%v\n%s", r, buf)}}
			}
		}
	}()
	var viols []simkit.Violation
	sigSeen := map[string]bool{}
	fail := func(class, opname, clause, detail string) {
		sig := class + "/" + opname
		if clause != "" {
			sig += "/" + clause
		}
		if sigSeen[sig] || len(viols) >= 6 {
			return
		}
		sigSeen[sig] = true
		viols = append(viols, simkit.Violation{Class: class, Sig: sig, Detail: sig + ": " + detail})
	}
	vs.PoolReset()
	sc, err := makeScenario(src, tier, idx)
	if err != nil {
		res.Violations = []simkit.Violation{{Class: "machinery", Sig: "machinery/scenario", Detail: err.Error()}}
		return res
	}
	defer sc.release()
	p := sc.p
	thePool = p
	if p.general {
		res.Stats["pools_general_position_class"]++
	} else {
		res.Stats["pools_lattice_class"]++
	}
	res.Stats["pools_with_revision_operand"] += int64(p.revisions)
	res.Stats["pools_with_large_operand"] += int64(p.large)
	res.Stats["pools_with_areal_collection"] += int64(p.arealGCs)
	res.Stats["pools_with_concurrent_edge_pencil"] += int64(p.pencils)
	if sc.focus {
		res.Stats["focus_mode_runs"]++
	}
	if p.frozen {
		res.Stats["pools_in_frozen_memory"]++
	} else {
		res.Stats["pools_on_heap"]++
	}
	res.Stats["frozen_region_overflow_allocs"] += int64(0)

	var ref0, ref0Prev [][]opResult
	var skip0 [][]bool
	var scripts0 [][]opSpec
	var lastSim *vs.Sim
	for epoch := 0; epoch < sc.epochs && len(viols) == 0; epoch++ {
		if epoch > 0 {
			if sc.publish(ref0Prev) == 0 {
				break
			}
			res.Stats["epochs_with_published_results"]++
			sc.genScripts(src, fmt.Sprintf("e%d", epoch), false)
		}
		ref := make([][]opResult, sc.nt)
		refSteps := make([][]int64, sc.nt)
		skip := make([][]bool, sc.nt)
		var sim *vs.Sim
		var logs []*taskLog
		var switchViol string
		// Which comes first is drawn: with the reference pass first, budgets are
		// calibrated per call; with the concurrent phase first, the very first
		// use of every shared operand happens under concurrency (lazily
		// initialised or high-water-mark state inside a shared value is
		// otherwise warmed up by the reference pass and never seen racing).
		concurrentFirst := src.Stream("main").Intn(2, "order/concurrent-first") == 1
		if degraded() {
			concurrentFirst = false // budgets are off in degraded mode: non-terminating calls must be known (and skipped) first
		}
		// ---- R1: every call alone, canonical order, single task
		runReference := func() bool {
			for t, script := range sc.scripts {
				skip[t] = make([]bool, len(script))
				refSteps[t] = make([]int64, len(script))
				for i := range script {
					op := &script[i]
					var r opResult
					markOp(op)
					steps, _, pv, stack := vs.Solo(opBudget, func() { r = execOp(op, p, op.Scribble) })
					res.Stats["logical_steps"] += steps
					if pv != nil {
						res.Violations = []simkit.Violation{{Class: "machinery", Sig: "machinery/execOp", Detail: fmt.Sprintf("%v\n%s", pv, stack)}}
						return false
					}
					ref[t] = append(ref[t], r)
					refSteps[t][i] = steps
					name := catalogue[op.Entry].name
					if r.Fault != "" {
						fail("frozen-store", name, frameOf(r.Fault), "library stored into a shared operand's coordinate memory (reference phase): "+opString(op)+"\n"+clipS(r.Fault, 2500))
					}
					if r.Budget {
						// too heavy (or non-terminating) even alone: that is not C10's
						// business (same behaviour every time); the call is left out.
						skip[t][i] = true
						res.Stats["ops_skipped_over_budget_alone"]++
					}
					if strings.HasPrefix(r.Digest, "NOT-RETAINED") {
						fail("result-not-retained", name, "", opString(op)+": "+r.Digest)
					}
				}
			}
			// ---- R1': the same calls again, in reverse order, same process: "calling
			// the same operation again with the same arguments returns a bit-identical
			// result" must not depend on what was called in between.
			for t := len(sc.scripts) - 1; t >= 0 && len(viols) == 0; t-- {
				for i := len(sc.scripts[t]) - 1; i >= 0; i-- {
					op := &sc.scripts[t][i]
					if skip[t][i] || ref[t][i].Fault != "" {
						continue
					}
					var r opResult
					markOp(op)
					steps, _, pv, stack := vs.Solo(opBudget, func() { r = execOp(op, p, op.Scribble) })
					res.Stats["logical_steps"] += steps
					res.Stats["repeat_executions"]++
					if pv != nil {
						res.Violations = []simkit.Violation{{Class: "machinery", Sig: "machinery/execOp", Detail: fmt.Sprintf("%v\n%s", pv, stack)}}
						return false
					}
					if r.Digest != ref[t][i].Digest {
						fail("result-differs", catalogue[op.Entry].name, "repeat", fmt.Sprintf("%s executed twice, alone, in one process (other calls in between): first\n  %s\nthen\n  %s", opString(op), clipAround(ref[t][i].Digest, r.Digest), clipAround(r.Digest, ref[t][i].Digest)))
					}
				}
			}
			if d := p.verify(); d != "" {
				fail("operand-changed", "reference-phase", "", d)
			}
			return true
		}
		// ---- concurrent phase
		runConcurrent := func() bool {
			sim = &vs.Sim{Sched: src.Stream("sched"), MaxSwitchLog: 256}
			if degraded() {
				sim.Plan = vs.NewSwarmPlan(sim.Sched, [5]int{1, 0, 0, 0, 0}, 1)
			} else if raceBuild {
				sim.Plan = vs.NewSwarmPlan(sim.Sched, [5]int{0, 1, 0, 1, 6}, 12)
			} else {
				sim.Plan = vs.NewSwarmPlan(sim.Sched, [5]int{1, 6, 2, 1, 1}, 15)
			}
			switch g := sim.Sched.Intn(10, "gc?"); {
			case g >= 8: // a collection (with finalizers) at every one of the first switches
				sim.GCOdds = 1
				sim.GCMax = 12
			case g >= 5:
				sim.GCOdds = 4
				sim.GCMax = 3
			}
			logs = make([]*taskLog, sc.nt)
			inflight := make([]string, sc.nt) // family of the op each task is executing ("" = none)
			sim.OnSwitch = func(sm *vs.Sim, from *vs.Task) {
				if sm.NSwitch <= 48 || sm.NSwitch%16 == 0 {
					if switchViol == "" {
						if d := p.verify(); d != "" {
							site, _ := 0, 0
							if n := len(sm.Switches); n > 0 {
								site = sm.Switches[n-1].Site
							}
							switchViol = fmt.Sprintf("at context switch %d (task %d yielded at %s, executing %s): %s", sm.NSwitch, from.ID, siteName(site), getInflight(inflight, from.ID), d)
						}
					}
				}
			}
			policyMode := sim.Sched.Intn(4, "maporder/style")
			for t := 0; t < sc.nt; t++ {
				t := t
				ts := src.Stream(fmt.Sprintf("t%d", t))
				logs[t] = &taskLog{}
				script := sc.scripts[t]
				task := sim.NewTask(ts, func(tk *vs.Task) {
					debug.SetPanicOnFault(true)
					for i := range script {
						op := &script[i]
						if !concurrentFirst && skip[t][i] {
							logs[t].res = append(logs[t].res, ref[t][i])
							continue
						}
						tk.ResetTags()
						if degraded() {
							tk.SetBudget(1 << 40) // a budget panic on a foreign goroutine could not be recovered
						} else if concurrentFirst {
							tk.SetBudget(opBudget)
						} else {
							tk.SetBudget(10*refSteps[t][i] + 200000)
						}
						setInflight(inflight, t, catalogue[op.Entry].family+":"+catalogue[op.Entry].name)
						markOp(op)
						r := execOp(op, p, op.Scribble)
						tk.SetBudget(1 << 40)
						setInflight(inflight, t, "")
						logs[t].res = append(logs[t].res, r)
						vs.OpBoundary(siteOpBound)
					}
				})
				switch policyMode {
				case 0:
					task.Policy = vs.MapPolicy{Canon: 1}
				case 1:
					task.Policy = vs.MapPolicy{Canon: 2, Rev: 1, Rot: 1, Perm: 2}
				case 2:
					task.Policy = vs.MapPolicy{Rev: 1, Perm: 3}
				default:
					task.Policy = vs.MapPolicy{Canon: 8, Rev: 1, Rot: 1, Perm: 1}
				}
				if degraded() {
					task.Policy = vs.MapPolicy{} // no draws: goroutines the library starts would draw concurrently
				}
			}
			if err := sim.Run(); err != nil {
				res.Violations = []simkit.Violation{{Class: "machinery", Sig: "machinery/task-panic", Detail: err.Error()}}
				return false
			}
			return true
		}
		if concurrentFirst {
			res.Stats["runs_concurrent_phase_first"]++
			if !runConcurrent() || !runReference() {
				return res
			}
		} else {
			if !runReference() {
				return res
			}
			if len(viols) > 0 {
				res.Violations = viols
				res.Sample = sc.sample(nil)
				return res
			}
			if !runConcurrent() {
				return res
			}
		}
		// ---- oracles over the recorded history
		var noncanon, rangeCalls, untagged int64
		mapHash := uint64(1469598103934665603)
		for t, tk := range sim.Tasks {
			res.Stats["logical_steps"] += tk.Steps()
			noncanon += tk.NonCanon
			rangeCalls += tk.RangeCalls
			untagged += tk.Untagged
			var ids []int
			for id := range tk.SiteNonCan {
				ids = append(ids, id)
			}
			sort.Ints(ids)
			for _, id := range ids {
				res.Stats[fmt.Sprintf("probe/noncanonical_order_at_site_%s", siteName(id))] += tk.SiteNonCan[id]
				mapHash = (mapHash ^ uint64(id+1)*uint64(tk.SiteNonCan[id]+7) ^ uint64(t)<<40) * 1099511628211
			}
			for _, e := range tk.Stream.Rec {
				if strings.HasPrefix(e.L, "map/") {
					mapHash = (mapHash ^ e.V ^ e.N<<32) * 1099511628211
				}
			}
			for i, r := range logs[t].res {
				op := &sc.scripts[t][i]
				ent := catalogue[op.Entry]
				res.Stats["operations"]++
				res.Stats["ops_family/"+ent.family]++
				res.Stats["op/"+ent.name]++
				res.Stats["callbacks"] += r.CBs
				res.Stats["fault/callback-abort"] += r.Aborts
				if r.Retained && !r.KeptOnly {
					res.Stats["fault/buffer-reuse"]++
				}
				if r.Fault != "" {
					fail("frozen-store", ent.name, frameOf(r.Fault), "library stored into a shared operand's coordinate memory: "+opString(op)+"\n"+clipS(r.Fault, 2500))
					continue
				}
				if skip[t][i] {
					continue
				}
				if r.Budget {
					if concurrentFirst && 10*refSteps[t][i]+200000 > opBudget {
						res.Stats["ops_budget_inconclusive"]++
						continue
					}
					fail("step-budget-exceeded", ent.name, "", fmt.Sprintf("operation took %d yield points alone but passed more than 10x that (+2e5) under simulation: %s", refSteps[t][i], opString(op)))
					continue
				}
				if strings.HasPrefix(r.Digest, "NOT-RETAINED") {
					fail("result-not-retained", ent.name, "", opString(op)+": "+r.Digest)
					continue
				}
				if r.Digest != ref[t][i].Digest {
					fail("result-differs", ent.name, "", fmt.Sprintf("task %d op %d %s: under simulation returned\n  %s\nalone under canonical order it returned\n  %s\n(first difference at byte %d)", t, i, opString(op), clipAround(r.Digest, ref[t][i].Digest), clipAround(ref[t][i].Digest, r.Digest), firstDiff(r.Digest, ref[t][i].Digest)))
				}
				// end-of-run retention: values returned earlier still have their digests
				if r.Retained {
					var sb strings.Builder
					for _, rv := range r.Retain {
						digest(&sb, rv, 0)
						sb.WriteByte(';')
					}
					if sb.String() != r.RetainDigest {
						fail("result-not-retained", ent.name, "end-of-run", opString(op)+": a value returned earlier changed later: "+clipS(r.RetainDigest, 300)+" => "+clipS(sb.String(), 300))
					}
				}
			}
			if len(logs[t].res) != len(sc.scripts[t]) {
				fail("machinery", "script", "", fmt.Sprintf("task %d executed %d of %d ops", t, len(logs[t].res), len(sc.scripts[t])))
			}
		}
		if switchViol != "" {
			fail("operand-changed", "switch-time", "", switchViol)
		}
		if d := p.verify(); d != "" {
			fail("operand-changed", "end-of-run", "", d)
		}
		// ---- stats, probes
		midOp := int64(0)
		for _, sw := range sim.Switches {
			c := siteClass(sw.Site)
			if c != "between-ops" && c != "task-end" {
				midOp++
				res.Stats["probe/switch_inside_"+c]++
			}
		}
		res.Stats["context_switches"] += sim.NSwitch
		res.Stats["switches_inside_operations_logged"] += midOp
		res.Stats["fault/forced-gc"] += sim.Forced
		res.Stats["lock_wait_detours"] += sim.LockDetours
		res.Stats["fault/noncanonical-map-order"] += noncanon
		res.Stats["map_range_invocations"] += rangeCalls
		res.Stats["untagged_pointer_keys"] += untagged
		res.Stats["tasks"] += int64(sc.nt)
		res.Stats[fmt.Sprintf("plan_mode/%d", sim.Plan.(*vs.SwarmPlan).Mode)]++
		if int64(sc.nt) > res.Max["tasks_in_one_run"] {
			res.Max["tasks_in_one_run"] = int64(sc.nt)
		}
		if untagged > 0 {
			res.Stats["order_uncontrolled_runs"]++
		}
		if midOp > 0 || noncanon > 0 {
			var fams []string
			for _, script := range sc.scripts {
				for _, op := range script {
					fams = append(fams, catalogue[op.Entry].family)
				}
			}
			sort.Strings(fams)
			res.Tuples = []string{fmt.Sprintf("%s|%x|%x", strings.Join(fams, ","), sim.Hash, mapHash)}
			res.Hashes = []uint64{sim.Hash}
		}

		if epoch == 0 {
			ref0, skip0, scripts0 = ref, skip, sc.scripts
		}
		ref0Prev = ref
		lastSim = sim
	}
	if scripts0 != nil {
		sc.scripts = scripts0
	}
	// ---- R2: the un-instrumented library in another process
	if !raceBuild && len(viols) == 0 && idx%3 == 0 && ref0 != nil {
		if msg, class := crossCheck(src, sc, ref0, skip0, tier, idx); msg != "" {
			if class == "machinery" {
				viols = append(viols, simkit.Violation{Class: "machinery", Sig: "machinery/instrumentation-diverges", Detail: msg})
			} else if class == "divergence" {
				// Either the instrumentation changed a result (then it does so in
				// fresh processes too: the supervisor answers exit 2) or the
				// library's result depends on what its process did earlier (then
				// only the history reproduces it: a violation).
				viols = append(viols, simkit.Violation{Class: "cross-process-divergence", Sig: "result-differs/cross-process/process-history", Detail: "result-differs/cross-process/process-history: " + msg})
			} else {
				fail("result-differs", "cross-process", class, msg)
				if len(viols) > 0 && strings.HasSuffix(viols[len(viols)-1].Sig, "/cross-process/"+class) && (class == "repeat" || class == "per-process") {
					// two natural-order executions in the reference process: Go's own map randomisation decides
					viols[len(viols)-1].Statistical = true
				}
			}
		}
		res.Stats["cross_process_reference_runs"]++
	}
	res.Sample = sc.sample(lastSim)
	res.Violations = viols
	return res
}

// inflight is written by task goroutines and read by the scheduler goroutine
// while they are parked; the baton orders these accesses but is invisible to
// the race detector on purpose, so they go through norace accessors.
//
//go:norace
func setInflight(a []string, i int, s string) { a[i] = s }

//go:norace
func getInflight(a []string, i int) string { return a[i] }

// markOp records the operation about to run in the worker's in-flight area,
// so that a worker death names it.
//
//go:norace
func markOp(op *opSpec) { simkit.MarkPayload([]byte(opString(op))) }

func firstDiff(a, b string) int {
	n := len(a)
	if len(b) < n {
		n = len(b)
	}
	for i := 0; i < n; i++ {
		if a[i] != b[i] {
			return i
		}
	}
	return n
}

func clipAround(a, b string) string {
	d := firstDiff(a, b)
	lo := d - 120
	if lo < 0 {
		lo = 0
	}
	hi := d + 200
	if hi > len(a) {
		hi = len(a)
	}
	pre := ""
	if lo > 0 {
		pre = "…"
	}
	return pre + a[lo:hi]
}

func siteName(id int) string {
	if id >= 0 && id < len(sites) {
		s := sites[id]
		return fmt.Sprintf("%s:%d(%s)", s.File, s.Line, s.Func)
	}
	return siteClass(id)
}

var frameRe = regexp.MustCompile(`github\.com/peterstace/simplefeatures/(geom|rtree)\.((?:\(\*?\w+\)\.)?\w+(?:\.func\d+)*)`)

func frameOf(stack string) string {
	m := frameRe.FindStringSubmatch(stack)
	if m == nil {
		return "?"
	}
	return m[1] + "." + m[2]
}

func (sc *scenario) sample(sim *vs.Sim) map[string]interface{} {
	s := map[string]interface{}{"tasks": sc.nt, "pool_frozen": sc.p.frozen, "general_position_class": sc.p.general}
	var ops []string
	for t, script := range sc.scripts {
		for _, op := range script {
			if len(ops) < 24 {
				ops = append(ops, fmt.Sprintf("t%d:%s", t, opString(&op)))
			}
		}
	}
	s["scripts"] = ops
	var gs []string
	for _, g := range sc.p.geoms {
		gs = append(gs, clipS(g.AsText(), 240))
	}
	s["operands"] = gs
	s["trees"] = len(sc.p.trees)
	if sim != nil {
		s["context_switches"] = sim.NSwitch
		s["plan_mode"] = sim.Plan.(*vs.SwarmPlan).Mode
		var sw []string
		for i, x := range sim.Switches {
			if i >= 12 {
				break
			}
			sw = append(sw, fmt.Sprintf("t%d@%s", x.From, siteName(x.Site)))
		}
		s["first_switches"] = sw
	}
	return s
}

// ---------------------------------------------------------------- R2

type refReq struct {
	Tier  string   `json:"tier"`
	Idx   int64    `json:"idx"`
	Seed  uint64   `json:"seed"`
	Trace vs.Trace `json:"trace"`
	Skip  [][]bool `json:"skip"`
}

type refResp struct {
	Err      string     `json:"err,omitempty"`
	Scenario string     `json:"scenario"`
	A        [][]string `json:"a"`
	B        [][]string `json:"b"`
}

func scenarioDigest(sc *scenario) string {
	var sb strings.Builder
	for i, d := range sc.p.pubG {
		if i >= sc.p.nOrig {
			break // operands published by later epochs are not part of the generated scenario
		}
		sb.WriteString(d)
		sb.WriteByte('\n')
	}
	for _, script := range sc.scripts {
		for _, op := range script {
			sb.WriteString(opString(&op))
			sb.WriteByte('\n')
		}
	}
	return fmt.Sprintf("%x", fnv64([]byte(sb.String())))
}

func refServer() {
	in := json.NewDecoder(bufio.NewReaderSize(os.Stdin, 1<<20))
	out := bufio.NewWriter(os.Stdout)
	enc := json.NewEncoder(out)
	for {
		var req refReq
		if err := in.Decode(&req); err != nil {
			return
		}
		var resp refResp
		func() {
			defer vs.CollectNow()
			defer func() {
				if r := recover(); r != nil {
					resp.Err = fmt.Sprint(r)
				}
			}()
			src := vs.NewReplaySource(req.Seed, req.Trace, true)
			sc, err := makeScenario(src, req.Tier, req.Idx)
			if err != nil {
				resp.Err = err.Error()
				return
			}
			defer sc.release()
			if inv := src.Invalid(); inv != "" {
				resp.Err = "scenario trace does not fit: " + inv
				return
			}
			resp.Scenario = scenarioDigest(sc)
			for rep := 0; rep < 2; rep++ {
				var all [][]string
				for t, script := range sc.scripts {
					var ds []string
					for i := range script {
						if t < len(req.Skip) && i < len(req.Skip[t]) && req.Skip[t][i] {
							ds = append(ds, "SKIPPED")
							continue
						}
						r := execOp(&script[i], sc.p, script[i].Scribble)
						ds = append(ds, r.Digest)
					}
					all = append(all, ds)
				}
				if rep == 0 {
					resp.A = all
				} else {
					resp.B = all
				}
			}
		}()
		enc.Encode(&resp)
		out.Flush()
	}
}

var refProc struct {
	cmd *exec.Cmd
	enc *json.Encoder
	dec *json.Decoder
	in  interface{ Close() error }
}

func crossCheck(src *vs.Source, sc *scenario, ref [][]opResult, skip [][]bool, tier string, idx int64) (string, string) {
	bin := os.Getenv("VERIF_C10_REF")
	if bin == "" {
		return "", ""
	}
	if refProc.cmd == nil {
		cmd := exec.Command(bin, "refserver")
		cmd.Stderr = os.Stderr
		w, err := cmd.StdinPipe()
		if err != nil {
			return "cannot start reference process: " + err.Error(), "machinery"
		}
		r, err := cmd.StdoutPipe()
		if err != nil {
			return "cannot start reference process: " + err.Error(), "machinery"
		}
		if err := cmd.Start(); err != nil {
			return "cannot start reference process: " + err.Error(), "machinery"
		}
		refProc.cmd, refProc.enc, refProc.dec, refProc.in = cmd, json.NewEncoder(w), json.NewDecoder(bufio.NewReaderSize(r, 1<<20)), w
	}
	tr := vs.Trace{}
	for name, entries := range src.Trace() {
		if name == "main" || (strings.HasPrefix(name, "s") && name != "sched") {
			tr[name] = entries
		}
	}
	if err := refProc.enc.Encode(&refReq{Tier: tier, Idx: idx, Seed: src.Seed, Trace: tr, Skip: skip}); err != nil {
		refProc.cmd = nil
		return "reference process: " + err.Error(), "machinery"
	}
	var resp refResp
	if err := refProc.dec.Decode(&resp); err != nil {
		refProc.cmd = nil
		return "reference process died: " + err.Error(), "machinery"
	}
	if resp.Err != "" {
		return "reference process: " + resp.Err, "machinery"
	}
	// shipped library, two sequential executions in one process: must agree
	for t := range resp.A {
		for i := range resp.A[t] {
			if resp.A[t][i] != resp.B[t][i] {
				return fmt.Sprintf("the un-instrumented library returned different results for two sequential executions of %s in one process:\n  %s\n  %s", opString(&sc.scripts[t][i]), clipAround(resp.A[t][i], resp.B[t][i]), clipAround(resp.B[t][i], resp.A[t][i])), "repeat"
			}
		}
	}
	if resp.Scenario != scenarioDigest(sc) {
		return "scenario generated by the un-instrumented build differs from the instrumented build's for the same choices (self-consistent on both sides)", "machinery"
	}
	for t := range ref {
		for i := range ref[t] {
			if t < len(resp.A) && i < len(resp.A[t]) && !skip[t][i] && resp.A[t][i] != ref[t][i].Digest {
				if d3 := freshReference(src, sc, skip, tier, idx); d3 != nil && t < len(d3) && i < len(d3[t]) && d3[t][i] != resp.A[t][i] {
					return fmt.Sprintf("two processes running the un-instrumented library return different results for %s:\n  one   %s\n  other %s", opString(&sc.scripts[t][i]), clipAround(resp.A[t][i], d3[t][i]), clipAround(d3[t][i], resp.A[t][i])), "per-process"
				}
				return fmt.Sprintf("this process and the reference process (un-instrumented library) return different results for %s, each consistently:\n  here      %s\n  reference %s", opString(&sc.scripts[t][i]), clipAround(ref[t][i].Digest, resp.A[t][i]), clipAround(resp.A[t][i], ref[t][i].Digest)), "divergence"
			}
		}
	}
	return "", ""
}

// freshReference runs the scenario once in a brand-new reference process.
func freshReference(src *vs.Source, sc *scenario, skip [][]bool, tier string, idx int64) [][]string {
	bin := os.Getenv("VERIF_C10_REF")
	if bin == "" {
		return nil
	}
	cmd := exec.Command(bin, "refserver")
	w, err := cmd.StdinPipe()
	if err != nil {
		return nil
	}
	r, err := cmd.StdoutPipe()
	if err != nil {
		return nil
	}
	if cmd.Start() != nil {
		return nil
	}
	defer func() { w.Close(); cmd.Wait() }()
	tr := vs.Trace{}
	for name, entries := range src.Trace() {
		if name == "main" || (strings.HasPrefix(name, "s") && name != "sched") {
			tr[name] = entries
		}
	}
	if json.NewEncoder(w).Encode(&refReq{Tier: tier, Idx: idx, Seed: src.Seed, Trace: tr, Skip: skip}) != nil {
		return nil
	}
	var resp refResp
	if json.NewDecoder(bufio.NewReaderSize(r, 1<<20)).Decode(&resp) != nil || resp.Err != "" {
		return nil
	}
	return resp.A
}

// ClassifyDeath: in the race build the worker halts on the first report.
var raceRe = regexp.MustCompile(`(?s)WARNING: DATA RACE.*?={18}`)

func (e *engine) ClassifyDeath(stderr string, exit int, payload []byte) simkit.Violation {
	if rep := raceRe.FindString(stderr); rep != "" || strings.Contains(stderr, "WARNING: DATA RACE") {
		if rep == "" {
			rep = stderr
		}
		frames := frameRe.FindAllStringSubmatch(rep, -1)
		if len(frames) == 0 {
			return simkit.Violation{Class: "machinery", Sig: "machinery/race-in-harness", Detail: "race report without a library frame:\n" + clipS(rep, 4000)}
		}
		// signature: the two innermost library frames (one per access), order-independent
		var tops []string
		for _, blk := range strings.Split(rep, "\n\n") {
			if m := frameRe.FindStringSubmatch(blk); m != nil && (strings.Contains(blk, "by goroutine") || strings.Contains(blk, "by main goroutine")) && len(tops) < 2 {
				tops = append(tops, m[1]+"."+m[2])
			}
		}
		sort.Strings(tops)
		return simkit.Violation{Class: "data-race", Sig: "data-race/" + strings.Join(tops, "+"), Detail: "race detector report (library frames involved):\n" + clipS(rep, 5000)}
	}
	if strings.Contains(stderr, "fatal error:") {
		line := stderr[strings.Index(stderr, "fatal error:"):]
		if i := strings.IndexByte(line, '\n'); i > 0 {
			line = line[:i]
		}
		return simkit.Violation{Class: "process-abort", Sig: "process-abort/" + line, Detail: fmt.Sprintf("while executing %s:\n%s", payload, clipS(stderr, 4000))}
	}
	if i := strings.Index(stderr, "panic: "); i >= 0 {
		// A Go panic that no recover caught: every library call the harness
		// makes is under recover, so the panicking goroutine is the library's
		// own (a finalizer, a goroutine it started) or the panic is in library
		// code reached through the oracle's own reads of shared operands. If the
		// panicking stack has library frames at the top, it is the library's.
		rest := stderr[i:]
		if j := strings.Index(rest, "goroutine "); j >= 0 {
			stack := rest[j:]
			if k := strings.Index(stack, "\n\n"); k > 0 {
				stack = stack[:k]
			}
			if m := frameRe.FindStringSubmatch(stack); m != nil {
				line := rest
				if k := strings.IndexByte(line, '\n'); k > 0 {
					line = line[:k]
				}
				return simkit.Violation{Class: "process-abort", Sig: "process-abort/unrecovered-panic/" + m[1] + "." + m[2], Detail: fmt.Sprintf("a panic in library code escaped on a goroutine the caller cannot guard (%s) while executing %s:\n%s", line, payload, clipS(rest, 3500))}
			}
		}
	}
	return simkit.Violation{Class: "machinery", Sig: "machinery/worker-died", Detail: fmt.Sprintf("worker died (exit %d) while executing %s: %s", exit, payload, clipS(stderr, 3000))}
}
