package main

import (
	"encoding/hex"
	"fmt"
	"math"
	"reflect"
	"sort"
	"strconv"
	"strings"

	"github.com/peterstace/simplefeatures/geom"
	"github.com/peterstace/simplefeatures/rtree"
)

// digestOf renders a value as a canonical string built through public
// accessors only (DESIGN.md B.4): two values have the same digest iff every
// bit a caller can observe is the same.
func digestOf(v interface{}) string {
	var sb strings.Builder
	digest(&sb, reflect.ValueOf(v), 0)
	return sb.String()
}

func fbits(f float64) string { return strconv.FormatUint(math.Float64bits(f), 16) }

func digestGeom(sb *strings.Builder, g geom.Geometry) {
	sb.WriteString("G{")
	sb.WriteString(g.Type().String())
	sb.WriteByte(' ')
	sb.WriteString(g.CoordinatesType().String())
	sb.WriteByte(' ')
	sb.WriteString(hex.EncodeToString(g.AsBinary()))
	sb.WriteByte(' ')
	sb.WriteString(g.AsText())
	sb.WriteByte('}')
}

func digestSeq(sb *strings.Builder, s geom.Sequence) {
	sb.WriteString("S{")
	ct := s.CoordinatesType()
	sb.WriteString(ct.String())
	n := s.Length()
	sb.WriteString(" n=" + strconv.Itoa(n))
	for i := 0; i < n; i++ {
		c := s.Get(i)
		sb.WriteByte(' ')
		sb.WriteString(fbits(c.X))
		sb.WriteByte(',')
		sb.WriteString(fbits(c.Y))
		if ct.Is3D() {
			sb.WriteByte(',')
			sb.WriteString(fbits(c.Z))
		}
		if ct.IsMeasured() {
			sb.WriteByte(',')
			sb.WriteString(fbits(c.M))
		}
	}
	sb.WriteByte('}')
}

func digestEnv(sb *strings.Builder, e geom.Envelope) {
	mn, mx, ok := e.MinMaxXYs()
	if !ok {
		sb.WriteString("Env{empty}")
		return
	}
	sb.WriteString("Env{" + fbits(mn.X) + "," + fbits(mn.Y) + "," + fbits(mx.X) + "," + fbits(mx.Y) + "}")
}

var errType = reflect.TypeOf((*error)(nil)).Elem()

func digest(sb *strings.Builder, v reflect.Value, depth int) {
	if !v.IsValid() {
		sb.WriteString("nil")
		return
	}
	if depth > 12 {
		sb.WriteString("<deep>")
		return
	}
	if v.CanInterface() {
		switch x := v.Interface().(type) {
		case geom.Geometry:
			digestGeom(sb, x)
			return
		case geom.Point:
			digestGeom(sb, x.AsGeometry())
			return
		case geom.LineString:
			digestGeom(sb, x.AsGeometry())
			return
		case geom.Polygon:
			digestGeom(sb, x.AsGeometry())
			return
		case geom.MultiPoint:
			digestGeom(sb, x.AsGeometry())
			return
		case geom.MultiLineString:
			digestGeom(sb, x.AsGeometry())
			return
		case geom.MultiPolygon:
			digestGeom(sb, x.AsGeometry())
			return
		case geom.GeometryCollection:
			digestGeom(sb, x.AsGeometry())
			return
		case geom.Sequence:
			digestSeq(sb, x)
			return
		case geom.Envelope:
			digestEnv(sb, x)
			return
		case geom.NullGeometry:
			sb.WriteString("Null{" + strconv.FormatBool(x.Valid) + " ")
			digestGeom(sb, x.Geometry)
			sb.WriteByte('}')
			return
		case rtree.Box:
			sb.WriteString("Box{" + fbits(x.MinX) + "," + fbits(x.MinY) + "," + fbits(x.MaxX) + "," + fbits(x.MaxY) + "}")
			return
		case error:
			if x == nil {
				sb.WriteString("E:nil")
			} else {
				sb.WriteString("E:" + x.Error())
			}
			return
		case fmt.Stringer:
			if v.Kind() != reflect.Struct && v.Kind() != reflect.Slice && v.Kind() != reflect.Map && v.Kind() != reflect.Ptr {
				sb.WriteString(v.Type().String() + ":" + x.String())
				return
			}
		}
	}
	switch v.Kind() {
	case reflect.Bool:
		sb.WriteString(strconv.FormatBool(v.Bool()))
	case reflect.Int, reflect.Int8, reflect.Int16, reflect.Int32, reflect.Int64:
		sb.WriteString(strconv.FormatInt(v.Int(), 10))
	case reflect.Uint, reflect.Uint8, reflect.Uint16, reflect.Uint32, reflect.Uint64, reflect.Uintptr:
		sb.WriteString(strconv.FormatUint(v.Uint(), 10))
	case reflect.Float32, reflect.Float64:
		sb.WriteString("f" + fbits(v.Float()))
	case reflect.String:
		sb.WriteString(strconv.Quote(v.String()))
	case reflect.Slice:
		if v.IsNil() {
			sb.WriteString("[]nil")
			return
		}
		if v.Type().Elem().Kind() == reflect.Uint8 {
			sb.WriteString("b\"" + hex.EncodeToString(v.Bytes()) + "\"")
			return
		}
		fallthrough
	case reflect.Array:
		sb.WriteString("[" + strconv.Itoa(v.Len()) + ":")
		for i := 0; i < v.Len(); i++ {
			if i > 0 {
				sb.WriteByte(' ')
			}
			digest(sb, v.Index(i), depth+1)
		}
		sb.WriteByte(']')
	case reflect.Struct:
		sb.WriteString(v.Type().Name() + "{")
		for i := 0; i < v.NumField(); i++ {
			if i > 0 {
				sb.WriteByte(' ')
			}
			digest(sb, v.Field(i), depth+1)
		}
		sb.WriteByte('}')
	case reflect.Ptr, reflect.Interface:
		if v.IsNil() {
			if v.Type() == errType {
				sb.WriteString("E:nil")
			} else {
				sb.WriteString("nil")
			}
			return
		}
		digest(sb, v.Elem(), depth+1)
	case reflect.Map:
		keys := v.MapKeys()
		ks := make([]string, len(keys))
		idx := map[string]reflect.Value{}
		for i, k := range keys {
			ks[i] = fmt.Sprint(k.Interface())
			idx[ks[i]] = k
		}
		sort.Strings(ks)
		sb.WriteString("map{")
		for _, k := range ks {
			sb.WriteString(strconv.Quote(k) + ":")
			digest(sb, v.MapIndex(idx[k]), depth+1)
			sb.WriteByte(' ')
		}
		sb.WriteByte('}')
	case reflect.Func:
		if v.IsNil() {
			sb.WriteString("func:nil")
		} else {
			sb.WriteString("func")
		}
	case reflect.UnsafePointer:
		sb.WriteString("uptr")
	default:
		sb.WriteString("?" + v.Kind().String())
	}
}
