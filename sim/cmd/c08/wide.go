package main

import (
	"github.com/peterstace/simplefeatures/geom"

	vs "github.com/peterstace/simplefeatures/verifsim"
)

// Wide records: documents made of very many tiny members (hundreds to
// thousands of two-point lines, unit squares, triangular holes, points,
// one-member collections) instead of a few long ones. "Never allocate out of
// proportion to the input length" has a second axis besides a lying count
// field: work or memory per MEMBER that grows with the length of the rest of
// the document is linear for every record the ordinary generator draws (at
// most a few dozen members) and quadratic only here. The allocation meter and
// the step budget are the oracles; nothing else about the run changes.
//
// Coordinates are small non-negative integers so that the text encodings spend
// few bytes per member and a 64 KiB document holds thousands of them.

var wideCounts = []int{48, 160, 500, 1400, 4000}

func wideDraw(m *vs.Stream) (n int, ct geom.CoordinatesType, variant int) {
	n = wideCounts[m.Intn(len(wideCounts), "wide/n")]
	ct = []geom.CoordinatesType{geom.DimXY, geom.DimXY, geom.DimXY, geom.DimXYZ, geom.DimXYM, geom.DimXYZM}[m.Intn(6, "wide/ctype")]
	return n, ct, m.Intn(4, "wide/variant")
}

// wideSize is the length of the encoding whose size decides whether the
// document fits (TWKB is always the smallest by far).
func wideSize(g geom.Geometry, format int) int {
	switch format {
	case fWKB:
		return len(g.AsBinary())
	case fWKT:
		return len(g.AsText())
	case fTWKB:
		return 0
	}
	b, _ := g.MarshalJSON()
	return len(b)
}

func wideBuild(n int, ct geom.CoordinatesType, typ uint64, variant int) geom.Geometry {
	d := ct.Dimension()
	w := 1
	for w*w < n {
		w++
	}
	// seq builds a sequence from integer XYs; Z/M ordinates are small integers too
	seq := func(xy ...int) geom.Sequence {
		fs := make([]float64, 0, len(xy)/2*d)
		for i := 0; i+1 < len(xy); i += 2 {
			fs = append(fs, float64(xy[i]), float64(xy[i+1]))
			for k := 2; k < d; k++ {
				fs = append(fs, float64((xy[i]+k)%7))
			}
		}
		return geom.NewSequence(fs, ct)
	}
	cell := func(i int) (int, int) { return 3 * (i % w), 3 * (i / w) }
	point := func(i int) geom.Point {
		x, y := cell(i)
		s := seq(x, y)
		return geom.NewPoint(s.Get(0))
	}
	line := func(i int) geom.LineString {
		x, y := cell(i)
		if variant == 1 && i%5 == 0 {
			return geom.NewLineString(seq(x, y, x+1, y, x+1, y+1)) // the odd three-point member
		}
		return geom.NewLineString(seq(x, y, x+1, y+1))
	}
	square := func(i int) geom.Polygon {
		x, y := cell(i)
		return geom.NewPolygon([]geom.LineString{geom.NewLineString(seq(x, y, x+2, y, x+2, y+2, x, y+2, x, y))})
	}
	switch typ {
	case 0: // "Point": a collection of points, a few of them empty
		gs := make([]geom.Geometry, n)
		for i := range gs {
			if variant == 2 && i%9 == 4 {
				gs[i] = geom.NewEmptyPoint(ct).AsGeometry()
			} else {
				gs[i] = point(i).AsGeometry()
			}
		}
		return geom.NewGeometryCollection(gs).AsGeometry()
	case 1: // "LineString": a collection of two-point lines
		gs := make([]geom.Geometry, n)
		for i := range gs {
			gs[i] = line(i).AsGeometry()
		}
		return geom.NewGeometryCollection(gs).AsGeometry()
	case 2: // Polygon: one shell, n-1 triangular holes on a grid strictly inside it
		rings := make([]geom.LineString, 0, n)
		side := 3*w + 3
		rings = append(rings, geom.NewLineString(seq(-1, -1, side, -1, side, side, -1, side, -1, -1)))
		for i := 0; i+1 < n; i++ {
			x, y := cell(i)
			rings = append(rings, geom.NewLineString(seq(x, y, x+1, y+2, x+2, y, x, y)))
		}
		return geom.NewPolygon(rings).AsGeometry()
	case 3: // MultiPoint
		ps := make([]geom.Point, n)
		for i := range ps {
			if variant == 2 && i%9 == 4 {
				ps[i] = geom.NewEmptyPoint(ct)
			} else {
				ps[i] = point(i)
			}
		}
		return geom.NewMultiPoint(ps).AsGeometry()
	case 4: // MultiLineString
		ls := make([]geom.LineString, n)
		for i := range ls {
			if variant == 2 && i%9 == 4 {
				ls[i] = geom.LineString{}.ForceCoordinatesType(ct)
			} else {
				ls[i] = line(i)
			}
		}
		return geom.NewMultiLineString(ls).AsGeometry()
	case 5: // MultiPolygon of disjoint squares
		ps := make([]geom.Polygon, n)
		for i := range ps {
			ps[i] = square(i)
		}
		return geom.NewMultiPolygon(ps).AsGeometry()
	}
	// GeometryCollection: every kind of small member in turn, some wrapped in
	// a collection of their own
	gs := make([]geom.Geometry, n)
	for i := range gs {
		var g geom.Geometry
		switch i % 4 {
		case 0:
			g = point(i).AsGeometry()
		case 1:
			g = line(i).AsGeometry()
		case 2:
			g = square(i).AsGeometry()
		default:
			g = geom.NewMultiPoint([]geom.Point{point(i)}).AsGeometry()
		}
		if variant == 3 && i%3 == 0 {
			g = geom.NewGeometryCollection([]geom.Geometry{g}).AsGeometry()
		}
		gs[i] = g
	}
	return geom.NewGeometryCollection(gs).AsGeometry()
}
