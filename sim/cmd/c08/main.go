// Command c08 is the simulation engine for property C08: decoders are total
// on untrusted input. Writer (real encoders) -> simulated storage medium with
// fault injection -> reader (real decoders) in a sacrificial worker process
// under an address-space ceiling, an allocation meter and a logical step
// budget. See DESIGN.md §3.1.
package main

import (
	"bytes"
	"encoding/binary"
	"encoding/hex"
	"encoding/json"
	"fmt"
	"os"
	"regexp"
	"runtime"
	"runtime/debug"
	"runtime/metrics"
	"sort"
	"strings"
	"sync"
	"syscall"
	"time"
	"unsafe"

	"github.com/peterstace/simplefeatures/geom"
	vs "github.com/peterstace/simplefeatures/verifsim"
	"verifsim.local/sim/gen"
	"verifsim.local/sim/simkit"
)

func main() {
	if len(os.Args) >= 2 && os.Args[1] == "worker" {
		// Address-space ceiling: an out-of-memory abort must kill this
		// sacrificial process, not the machine.
		// 4 GiB: a Go process needs ~1 GiB of address space before it has
		// allocated anything, and a long-lived worker's heap arenas (64 MiB
		// each, never unmapped) crept up to the earlier 2 GiB ceiling and
		// died without any decoder being at fault.
		debug.SetGCPercent(50)
		debug.SetMemoryLimit(5 << 29) // soft 2.5 GiB: collect hard before the address-space ceiling is near
		lim := syscall.Rlimit{Cur: 4 << 30, Max: 4 << 30}
		if err := syscall.Setrlimit(syscall.RLIMIT_AS, &lim); err != nil {
			fmt.Fprintln(os.Stderr, "c08 worker: setrlimit:", err)
			os.Exit(2)
		}
	}
	initInputRegion()
	debug.SetPanicOnFault(true)
	simkit.Main(&engine{})
}

type engine struct{}

func (*engine) ID() string { return "C08" }

func (*engine) Plan(tier string) int64 {
	if tier == "thorough" {
		return 6000
	}
	return 2800
}

const (
	fWKB = iota
	fWKT
	fGeoJSON
	fTWKB
	fFeature
	fFeatureCollection
	nFormats
)

var formatNames = [nFormats]string{"wkb", "wkt", "geojson", "twkb", "geojson-feature", "geojson-feature-collection"}

// Allocation policy (DESIGN.md §3.1 (3)): heap bytes allocated by one decoder
// call must stay below allocBase + allocPerByte*len(input). The measured
// worst ratio on the fault-free corpus is reported in the evidence.
const (
	allocBase    = 1 << 20
	allocPerByte = 4096
	stepBase     = 2_000_000
	stepPerByte  = 4_000
)

func allocBound(n int) uint64 { return allocBase + allocPerByte*uint64(n) }
func stepBudget(n int) int64  { return stepBase + stepPerByte*int64(n) }

func (*engine) Describe() simkit.Description {
	return simkit.Description{
		Level: "fault_enumeration",
		Rule: "One run = one seeded geometry (all 7 types x 4 coordinate types, empties, nested collections, 1..4000 vertices, ordinates from all float classes) written by a real encoder in one format " +
			"(WKB incl. big-/mixed-endian, WKT, GeoJSON, TWKB with drawn precision/headers, GeoJSON Feature / FeatureCollection), stored on a simulated medium, faulted, and read by every real decoder of that format. " +
			"Fault kinds: truncate, bit-flip, byte-substitute (all 256 values at structural offsets), 4-byte count smash (0,1,2^31-1,2^31,2^32-1,n-1,n+1), WKB type-word smash, varint smash (2^k, 2^64-1), " +
			"lost/duplicated/misdirected sector (sector sizes 1,8,16,64,512), torn write over zeros/older record/garbage, trailing garbage, splice of two records, token-level drop/duplicate/swap/replace for text formats, " +
			"deep nesting, seeded fault sequences of length 2-3, seeded arbitrary byte strings. In the thorough tier single faults are enumerated completely for records <= 512 bytes (exhaustive_records counts them) and sampled at 1024 positions per kind above that (structural bytes: 256 positions x 36 values); the quick tier samples 32 positions per kind. " +
			"distinct_nontrivial counts distinct (format, fault kind, structural field class, decoder, outcome class) tuples, outcome class = normalised error text or returned geometry type; a fault that left the bytes unchanged is trivial and not counted.",
		Assumptions: []string{
			fmt.Sprintf("Allocation policy: one decoder call may allocate at most %d + %d*len(input) heap bytes (TotalAlloc delta, exact via ReadMemStats when the cheap runtime/metrics reading exceeds a quarter of the bound).", allocBase, allocPerByte),
			fmt.Sprintf("Step budget: one decoder call may pass at most %d + %d*len(input) yield points (function entries + loop iterations of geom/rtree).", stepBase, stepPerByte),
			"Worker address-space ceiling RLIMIT_AS = 4 GiB; an out-of-memory abort, stack exhaustion or any runtime fatal error is observed as worker death and confirmed by re-execution.",
			"Structural offsets come from the harness's own WKB/TWKB scanners and text lexer, not from the library.",
			"Coverage-guided mutation is not performed (coverage_guided=false).",
		},
		Real:      []string{"geom encoders (AsBinary, AsText, MarshalJSON, MarshalTWKB, GeoJSONFeature/FeatureCollection.MarshalJSON)", "geom decoders (UnmarshalWKB/WKT/GeoJSON/TWKB, TWKB header readers, Scan, UnmarshalJSON adapters)", "geom.Validate and all re-encoders on returned geometries"},
		Simulated: []string{"storage medium between writer and reader (sectors, torn/lost/misdirected writes, bit rot, field smashes)", "memory ceiling (RLIMIT_AS) and allocation meter", "logical step clock"},
		Stubbed:   []string{},
		Extra:     map[string]interface{}{"coverage_guided": false},
	}
}

// ------------------------------------------------------------- decoders

type decoder struct {
	name      string
	format    int
	primary   bool
	validated bool
	fn        func(in []byte) (g geom.Geometry, has bool, err error)
}

var decoders []decoder

func concrete(name string, scan bool) func(in []byte) (geom.Geometry, bool, error) {
	return func(in []byte) (geom.Geometry, bool, error) {
		var err error
		var g geom.Geometry
		do := func(dst interface{}) {
			if scan {
				err = dst.(interface{ Scan(interface{}) error }).Scan(in)
			} else {
				err = dst.(json.Unmarshaler).UnmarshalJSON(in)
			}
		}
		switch name {
		case "Point":
			var x geom.Point
			do(&x)
			g = x.AsGeometry()
		case "LineString":
			var x geom.LineString
			do(&x)
			g = x.AsGeometry()
		case "Polygon":
			var x geom.Polygon
			do(&x)
			g = x.AsGeometry()
		case "MultiPoint":
			var x geom.MultiPoint
			do(&x)
			g = x.AsGeometry()
		case "MultiLineString":
			var x geom.MultiLineString
			do(&x)
			g = x.AsGeometry()
		case "MultiPolygon":
			var x geom.MultiPolygon
			do(&x)
			g = x.AsGeometry()
		case "GeometryCollection":
			var x geom.GeometryCollection
			do(&x)
			g = x.AsGeometry()
		}
		return g, err == nil, err
	}
}

var typeNames = []string{"Point", "LineString", "Polygon", "MultiPoint", "MultiLineString", "MultiPolygon", "GeometryCollection"}

func init() {
	add := func(d decoder) { decoders = append(decoders, d) }
	add(decoder{"UnmarshalWKB", fWKB, true, true, func(in []byte) (geom.Geometry, bool, error) {
		g, err := geom.UnmarshalWKB(in)
		return g, err == nil, err
	}})
	add(decoder{"UnmarshalWKB/NoValidate", fWKB, true, false, func(in []byte) (geom.Geometry, bool, error) {
		g, err := geom.UnmarshalWKB(in, geom.NoValidate{})
		return g, err == nil, err
	}})
	add(decoder{"Geometry.Scan([]byte)", fWKB, false, true, func(in []byte) (geom.Geometry, bool, error) {
		var g geom.Geometry
		err := g.Scan(in)
		return g, err == nil, err
	}})
	add(decoder{"Geometry.Scan(string)", fWKB, false, true, func(in []byte) (geom.Geometry, bool, error) {
		var g geom.Geometry
		err := g.Scan(str(in))
		return g, err == nil, err
	}})
	add(decoder{"NullGeometry.Scan", fWKB, false, true, func(in []byte) (geom.Geometry, bool, error) {
		var g geom.NullGeometry
		err := g.Scan(in)
		return g.Geometry, err == nil && g.Valid, err
	}})
	for _, tn := range typeNames {
		add(decoder{tn + ".Scan", fWKB, false, true, concrete(tn, true)})
	}
	add(decoder{"UnmarshalWKT", fWKT, true, true, func(in []byte) (geom.Geometry, bool, error) {
		g, err := geom.UnmarshalWKT(str(in))
		return g, err == nil, err
	}})
	add(decoder{"UnmarshalWKT/NoValidate", fWKT, true, false, func(in []byte) (geom.Geometry, bool, error) {
		g, err := geom.UnmarshalWKT(str(in), geom.NoValidate{})
		return g, err == nil, err
	}})
	add(decoder{"UnmarshalGeoJSON", fGeoJSON, true, true, func(in []byte) (geom.Geometry, bool, error) {
		g, err := geom.UnmarshalGeoJSON(in)
		return g, err == nil, err
	}})
	add(decoder{"UnmarshalGeoJSON/NoValidate", fGeoJSON, true, false, func(in []byte) (geom.Geometry, bool, error) {
		g, err := geom.UnmarshalGeoJSON(in, geom.NoValidate{})
		return g, err == nil, err
	}})
	add(decoder{"Geometry.UnmarshalJSON", fGeoJSON, false, true, func(in []byte) (geom.Geometry, bool, error) {
		var g geom.Geometry
		err := g.UnmarshalJSON(in)
		return g, err == nil, err
	}})
	add(decoder{"json.Unmarshal(*Geometry)", fGeoJSON, false, true, func(in []byte) (geom.Geometry, bool, error) {
		var g geom.Geometry
		err := json.Unmarshal(in, &g)
		return g, err == nil, err
	}})
	for _, tn := range typeNames {
		add(decoder{tn + ".UnmarshalJSON", fGeoJSON, false, true, concrete(tn, false)})
	}
	add(decoder{"UnmarshalTWKB", fTWKB, true, true, func(in []byte) (geom.Geometry, bool, error) {
		g, err := geom.UnmarshalTWKB(in)
		return g, err == nil, err
	}})
	add(decoder{"UnmarshalTWKB/NoValidate", fTWKB, true, false, func(in []byte) (geom.Geometry, bool, error) {
		g, err := geom.UnmarshalTWKB(in, geom.NoValidate{})
		return g, err == nil, err
	}})
	add(decoder{"UnmarshalTWKBEnvelope", fTWKB, true, false, func(in []byte) (geom.Geometry, bool, error) {
		env, ok, err := geom.UnmarshalTWKBEnvelope(in)
		if err == nil && ok {
			return env.XYEnvelope.AsGeometry(), true, nil
		}
		return geom.Geometry{}, false, err
	}})
	add(decoder{"UnmarshalTWKBSize", fTWKB, true, false, func(in []byte) (geom.Geometry, bool, error) {
		_, _, err := geom.UnmarshalTWKBSize(in)
		return geom.Geometry{}, false, err
	}})
	add(decoder{"UnmarshalTWKBIDList", fTWKB, true, false, func(in []byte) (geom.Geometry, bool, error) {
		_, _, err := geom.UnmarshalTWKBIDList(in)
		return geom.Geometry{}, false, err
	}})
	add(decoder{"GeoJSONFeature.UnmarshalJSON", fFeature, true, true, func(in []byte) (geom.Geometry, bool, error) {
		var f geom.GeoJSONFeature
		err := f.UnmarshalJSON(in)
		return f.Geometry, err == nil, err
	}})
	add(decoder{"json.Unmarshal(*GeoJSONFeature)", fFeature, false, true, func(in []byte) (geom.Geometry, bool, error) {
		var f geom.GeoJSONFeature
		err := json.Unmarshal(in, &f)
		return f.Geometry, err == nil, err
	}})
	add(decoder{"GeoJSONFeatureCollection.UnmarshalJSON", fFeatureCollection, true, true, func(in []byte) (geom.Geometry, bool, error) {
		var fc geom.GeoJSONFeatureCollection
		err := fc.UnmarshalJSON(in)
		if err != nil || len(fc) == 0 {
			return geom.Geometry{}, false, err
		}
		gs := make([]geom.Geometry, 0, len(fc))
		ct := fc[0].Geometry.CoordinatesType()
		for _, f := range fc {
			if f.Geometry.CoordinatesType() == ct {
				gs = append(gs, f.Geometry)
			}
		}
		return geom.NewGeometryCollection(gs).AsGeometry(), true, nil
	}})
	add(decoder{"json.Unmarshal(*GeoJSONFeatureCollection)", fFeatureCollection, false, true, func(in []byte) (geom.Geometry, bool, error) {
		var fc geom.GeoJSONFeatureCollection
		err := json.Unmarshal(in, &fc)
		return geom.Geometry{}, false, err
	}})
}

// ------------------------------------------------------------- frozen input

// The input handed to a decoder lives in an mmap'ed region that is read-only
// while the decoder runs (untrusted bytes often come from a read-only mapping
// of a file, and a Go string's bytes may be in read-only memory): a decoder
// that stores into its input, however briefly, faults at the store, which
// debug.SetPanicOnFault turns into a recoverable panic.
var inputRegion []byte

func initInputRegion() {
	mem, err := syscall.Mmap(-1, 0, 256<<10, syscall.PROT_READ|syscall.PROT_WRITE, syscall.MAP_ANON|syscall.MAP_PRIVATE)
	if err == nil {
		inputRegion = mem
	}
}

// frozen copies in into the region and write-protects it.
func frozen(in []byte) []byte {
	if inputRegion == nil || len(in) > len(inputRegion) {
		return in
	}
	syscall.Mprotect(inputRegion, syscall.PROT_READ|syscall.PROT_WRITE)
	copy(inputRegion, in)
	syscall.Mprotect(inputRegion, syscall.PROT_READ)
	return inputRegion[:len(in):len(in)]
}

// scribbleInput overwrites the first n bytes of the input region.
func scribbleInput(n int) {
	if inputRegion == nil || n > len(inputRegion) {
		return
	}
	syscall.Mprotect(inputRegion, syscall.PROT_READ|syscall.PROT_WRITE)
	for i := 0; i < n; i++ {
		inputRegion[i] = 0xAA
	}
	syscall.Mprotect(inputRegion, syscall.PROT_READ)
}

func inInputRegion(addr uintptr) bool {
	if inputRegion == nil {
		return false
	}
	base := uintptr(unsafe.Pointer(&inputRegion[0]))
	return addr >= base && addr < base+uintptr(len(inputRegion))
}

// str views b as a string without copying (so that a string argument points
// into the frozen region too).
func str(b []byte) string {
	if len(b) == 0 {
		return ""
	}
	return unsafe.String(&b[0], len(b))
}

// ------------------------------------------------------------- oracle

var allocSample = []metrics.Sample{{Name: "/gc/heap/allocs:bytes"}}

func allocNow() uint64 {
	metrics.Read(allocSample)
	return allocSample[0].Value.Uint64()
}

func exactAlloc(fn func()) uint64 {
	var a, b runtime.MemStats
	runtime.ReadMemStats(&a)
	fn()
	runtime.ReadMemStats(&b)
	return b.TotalAlloc - a.TotalAlloc
}

var frameRe = regexp.MustCompile(`github\.com/peterstace/simplefeatures/(geom|rtree)\.((?:\(\*?\w+\)\.)?\w+(?:\.func\d+)*)`)

func topFrame(stack []byte) string {
	m := frameRe.FindSubmatch(stack)
	if m == nil {
		return "?"
	}
	return string(m[1]) + "." + string(m[2])
}

var digitsRe = regexp.MustCompile(`[-+]?[0-9][0-9a-fA-Fx.+-]*`)

func errClass(err error) string {
	s := digitsRe.ReplaceAllString(err.Error(), "#")
	if len(s) > 48 {
		s = s[:48]
	}
	return "err:" + s
}

type runCtx struct {
	res           *simkit.RunResult
	tuples        map[string]struct{}
	viols         []simkit.Violation
	format        int
	sigSeen       map[string]bool
	maxRatioAlloc float64
}

func payload(decIdx int, in []byte) []byte {
	p := make([]byte, 2+len(in))
	binary.LittleEndian.PutUint16(p, uint16(decIdx))
	copy(p[2:], in)
	return p
}

func (c *runCtx) fail(class string, decIdx int, clause string, in []byte, detail string) {
	d := decoders[decIdx]
	sig := class + "/" + d.name + "/" + clause
	if c.sigSeen[sig] {
		c.res.Stats["violations_same_sig_in_run"]++
		return
	}
	c.sigSeen[sig] = true
	hx := hex.EncodeToString(in)
	if len(hx) > 400 {
		hx = hx[:400] + "…"
	}
	c.viols = append(c.viols, simkit.Violation{Class: class, Sig: sig, Payload: payload(decIdx, in),
		Detail: fmt.Sprintf("%s: input(%d bytes)=%s text=%q: %s", sig, len(in), hx, clip(in, 200), detail)})
}

func clip(b []byte, n int) string {
	if len(b) > n {
		return string(b[:n]) + "…"
	}
	return string(b)
}

var reencoders = []struct {
	name string
	fn   func(g geom.Geometry)
}{
	{"AsText", func(g geom.Geometry) { _ = g.AsText() }},
	{"AsBinary", func(g geom.Geometry) { _ = g.AsBinary() }},
	{"MarshalJSON", func(g geom.Geometry) { _, _ = g.MarshalJSON() }},
	{"MarshalTWKB(-8)", func(g geom.Geometry) { _, _ = geom.MarshalTWKB(g, -8) }},
	{"MarshalTWKB(0)", func(g geom.Geometry) {
		_, _ = geom.MarshalTWKB(g, 0, geom.TWKBSizeHeader(), geom.TWKBBoundingBoxHeader())
	}},
	{"MarshalTWKB(7)", func(g geom.Geometry) { _, _ = geom.MarshalTWKB(g, 7) }},
	{"Value", func(g geom.Geometry) { _, _ = g.Value() }},
}

// check runs one decoder on one input under the full oracle and returns the
// outcome class.
func (c *runCtx) check(decIdx int, in []byte) string {
	d := &decoders[decIdx]
	simkit.MarkPayload(payload(decIdx, in))
	var g geom.Geometry
	var has bool
	var err error
	fin := frozen(in)
	a0 := allocNow()
	steps, exceeded, pv, stack := vs.Solo(stepBudget(len(in)), func() { g, has, err = d.fn(fin) })
	delta := allocNow() - a0
	c.res.Stats["decodes"]++
	c.res.Stats["logical_steps"] += steps
	if r := steps * 1000 / int64(len(in)+64); r > c.res.Max["steps_per_input_byte_x1000"] {
		c.res.Max["steps_per_input_byte_x1000"] = r
	}
	if exceeded {
		c.fail("step-budget-exceeded", decIdx, "terminates", in, fmt.Sprintf("decoder passed more than %d yield points", stepBudget(len(in))))
		return "step-budget"
	}
	if pv != nil {
		if re, ok := pv.(runtime.Error); ok {
			if fa, ok := re.(interface{ Addr() uintptr }); ok && inInputRegion(fa.Addr()) {
				c.fail("input-store", decIdx, topFrame(stack), in, fmt.Sprintf("decoder stored into its input (read-only memory: a mapped file or a string's bytes): %v\n%s", pv, clip(stack, 1500)))
				return "input-store"
			}
		}
		c.fail("panic", decIdx, topFrame(stack), in, fmt.Sprintf("panic: %v\n%s", pv, clip(stack, 1500)))
		return "panic"
	}
	bound := allocBound(len(in))
	if delta > 32<<20 {
		// big (possibly legitimate) allocation: give the memory back before the
		// next call so that garbage cannot pile up against the ceiling
		defer func() { runtime.GC(); debug.FreeOSMemory() }()
	}
	if delta > bound/4 {
		c.res.Stats["exact_alloc_measurements"]++
		ex := exactAlloc(func() { vs.Solo(stepBudget(len(in)), func() { d.fn(fin) }) })
		if ex > bound {
			c.fail("over-allocation", decIdx, "alloc-bound", in, fmt.Sprintf("allocated %d heap bytes for a %d-byte input (bound %d)", ex, len(in), bound))
			return "over-allocation"
		}
		delta = ex
	}
	if r := int64(delta) / int64(len(in)+64); r > c.res.Max["alloc_bytes_per_input_byte"] {
		c.res.Max["alloc_bytes_per_input_byte"] = r
	}
	if len(in) >= 1024 {
		if r := int64(delta) / int64(len(in)); r > c.res.Max["alloc_bytes_per_input_byte_inputs_over_1KiB"] {
			c.res.Max["alloc_bytes_per_input_byte_inputs_over_1KiB"] = r
		}
	}
	if int64(delta) > c.res.Max["alloc_bytes_one_decode"] {
		c.res.Max["alloc_bytes_one_decode"] = int64(delta)
	}
	if err != nil {
		return errClass(err)
	}
	if !has {
		return "ok:no-geometry"
	}
	c.res.Stats["decodes_returning_geometry"]++
	// The medium's buffer is recycled once the read has returned (database/sql:
	// a []byte source is only valid until the next call): what the decoder
	// returned must not live in it.
	scribbleInput(len(in))
	c.res.Stats["fault/buffer-recycled-after-read"]++
	if d.validated {
		var verr error
		_, ex, pv, stack := vs.Solo(stepBudget(len(in)), func() { verr = g.Validate() })
		if pv != nil {
			c.fail("panic", decIdx, "Validate/"+topFrame(stack), in, fmt.Sprintf("Validate panicked on returned geometry: %v", pv))
		} else if ex {
			c.fail("step-budget-exceeded", decIdx, "Validate", in, "Validate of the returned geometry exceeded the step budget")
		} else if verr != nil {
			c.fail("invalid-after-validated-decode", decIdx, "validate", in, fmt.Sprintf("decoder (without NoValidate) returned a geometry whose Validate() is: %v", verr))
		}
	}
	for _, re := range reencoders {
		_, ex, pv, stack := vs.Solo(stepBudget(len(in))*4, func() { re.fn(g) })
		if pv != nil {
			c.fail("reencode-panic", decIdx, re.name+"/"+topFrame(stack), in, fmt.Sprintf("%s panicked on the returned geometry: %v\n%s", re.name, pv, clip(stack, 1200)))
		} else if ex {
			c.fail("step-budget-exceeded", decIdx, re.name, in, re.name+" of the returned geometry exceeded the step budget")
		}
	}
	c.res.Stats["reencodes"] += int64(len(reencoders))
	return "ok:" + g.Type().String()
}

// Finish reports decodes (not records) as the number of evaluations.
func (e *engine) Finish(stats, max map[string]int64, cov map[string]interface{}) {
	cov["records"] = stats["records"]
	cov["evaluations"] = stats["decodes"]
	cov["exhaustive_single_fault_records"] = stats["exhaustive_records"]
	cov["alloc_bound"] = fmt.Sprintf("%d + %d*len(input) bytes per decoder call", allocBase, allocPerByte)
	cov["step_budget"] = fmt.Sprintf("%d + %d*len(input) yield points per decoder call", stepBase, stepPerByte)
}

// concurrentReaders decodes the inputs from four goroutines at once (panics
// are recovered and ignored here: the sequential campaign reports those).
func concurrentReaders(decs []int, inputs [][]byte) {
	simkit.MarkPayload(nil)
	var wg sync.WaitGroup
	for g := 0; g < 4; g++ {
		wg.Add(1)
		go func(g int) {
			defer wg.Done()
			for round := 0; round < 2; round++ {
				for i := range inputs {
					in := inputs[(i+g*7)%len(inputs)]
					for _, di := range decs {
						func() {
							defer func() { recover() }()
							decoders[di].fn(in)
						}()
					}
				}
			}
		}(g)
	}
	wg.Wait()
}

// RunPayload replays one (decoder, input) pair.
func (e *engine) RunPayload(p []byte) *simkit.RunResult {
	res := &simkit.RunResult{Stats: map[string]int64{}, Max: map[string]int64{}}
	if len(p) < 2 {
		return res
	}
	di := int(binary.LittleEndian.Uint16(p))
	if di >= len(decoders) {
		return res
	}
	c := &runCtx{res: res, tuples: map[string]struct{}{}, sigSeen: map[string]bool{}}
	out := c.check(di, p[2:])
	res.Violations = c.viols
	res.Sample = map[string]interface{}{"decoder": decoders[di].name, "input_hex": hex.EncodeToString(p[2:]), "outcome": out}
	return res
}

// ShrinkPayload minimises the input bytes (decoder fixed).
func (e *engine) ShrinkPayload(p []byte, test func([]byte) bool, deadline time.Time) []byte {
	if len(p) < 2 {
		return p
	}
	head := append([]byte(nil), p[:2]...)
	body := simkit.ShrinkBytes(p[2:], func(b []byte) bool { return test(append(append([]byte(nil), head...), b...)) }, deadline)
	return append(head, body...)
}

var fatalRe = regexp.MustCompile(`(?m)^(fatal error: .*|runtime: .*out of memory.*|runtime: goroutine stack exceeds.*)$`)

func (e *engine) ClassifyDeath(stderr string, exit int, p []byte) simkit.Violation {
	name := "?"
	var in []byte
	if len(p) >= 2 {
		if di := int(binary.LittleEndian.Uint16(p)); di < len(decoders) {
			name = decoders[di].name
		}
		in = p[2:]
	}
	line := "exit " + fmt.Sprint(exit)
	if !fatalRe.MatchString(stderr) && (strings.HasPrefix(stderr, "panic: ") || strings.Contains(stderr, "\npanic: ")) {
		// decoder calls run under recover; an unrecovered Go panic is the harness's own
		return simkit.Violation{Class: "machinery", Sig: "machinery/harness-panic", Detail: clip([]byte(stderr), 3000)}
	}
	if m := fatalRe.FindString(stderr); m != "" {
		line = digitsRe.ReplaceAllString(m, "#")
	} else if len(p) < 2 {
		return simkit.Violation{Class: "machinery", Sig: "machinery/worker-died", Detail: "worker died without a decode in flight: " + clip([]byte(stderr), 3000)}
	}
	hx := hex.EncodeToString(in)
	if len(hx) > 400 {
		hx = hx[:400] + "…"
	}
	return simkit.Violation{Class: "process-abort", Sig: "process-abort/" + name + "/" + line, Payload: p,
		Detail: fmt.Sprintf("process-abort/%s: worker process died (%s) while decoding input(%d bytes)=%s\n%s", name, line, len(in), hx, clip([]byte(stderr), 1500))}
}

// ------------------------------------------------------------- run

func (e *engine) Run(src *vs.Source, tier string, idx int64) *simkit.RunResult {
	vs.PoolReset() // a run is a function of its seed, not of what earlier runs left in a sync.Pool
	res := &simkit.RunResult{Stats: map[string]int64{}, Max: map[string]int64{}}
	c := &runCtx{res: res, tuples: map[string]struct{}{}, sigSeen: map[string]bool{}}
	m := src.Stream("main")
	format := int(m.Force(nFormats, "format", uint64(idx%nFormats)))
	c.format = format
	rec, fields, desc := makeRecord(m, format, uint64((idx/nFormats)%7), tier)
	for try := 0; len(rec) > 64<<10 && try < 8; try++ {
		// the property's domain is byte strings up to 64 KiB
		res.Stats["oversize_records_redrawn"]++
		rec, fields, desc = makeRecord(m, format, uint64((idx/nFormats)%7), tier)
	}
	if len(rec) > 64<<10 {
		rec, fields, desc = makeRecord(vs.NewReplayStream("zero", nil, false), format, uint64((idx/nFormats)%7), tier)
	}
	other, _, _ := makeRecord(src.Stream("other"), format, uint64(m.Intn(7, "othertype")), "quick")
	res.Stats["records"]++
	if _, ok := desc["wide_members"]; ok {
		res.Stats["wide_records"]++ // very many tiny members (wide.go)
	}
	res.Stats["record_bytes"] += int64(len(rec))
	if int64(len(rec)) > res.Max["record_bytes"] {
		res.Max["record_bytes"] = int64(len(rec))
	}

	var decs, adapters []int
	for i, d := range decoders {
		if d.format == format {
			if d.primary {
				decs = append(decs, i)
			} else {
				adapters = append(adapters, i)
			}
		}
	}
	fs := src.Stream("faults")
	fs.NoRecord = true // fault positions are a pure function of the stream seed; the violation carries its input as payload
	nth := 0
	apply := func(kind, fclass string, in []byte) {
		if bytes.Equal(in, rec) && kind != "control" {
			res.Stats["trivial_faults"]++
			return
		}
		if len(in) > 64<<10 {
			in = in[:64<<10]
		}
		res.Stats["fault/"+kind]++
		use := decs
		nth++
		if len(adapters) > 0 && (kind == "control" || kind == "hex-text" || kind == "ordinate-smash" || nth%6 == 0) {
			use = append(append([]int(nil), decs...), adapters...)
		}
		for _, di := range use {
			out := c.check(di, in)
			c.tuples[formatNames[format]+"|"+kind+"|"+fclass+"|"+decoders[di].name+"|"+out] = struct{}{}
			if kind == "control" && strings.HasPrefix(out, "ok") {
				res.Stats["control_decoded_ok"]++
			}
		}
	}
	// fault-free control first
	apply("control", "-", rec)
	res.Stats["control_records"]++

	exhaustive := tier == "thorough" && len(rec) <= 512
	per := 32
	if tier == "thorough" {
		per = 1024 // positions per fault kind for records that are not enumerated completely
		if _, ok := desc["wide_members"]; ok {
			// a wide record costs a validation of thousands of members per decode:
			// at 1024 positions a single chunk of them kept one worker busy for
			// an hour after the other fifteen had finished
			per = 128
		}
	}
	if exhaustive {
		res.Stats["exhaustive_records"]++
	}
	var sampleInputs [][]byte
	applyAndKeep := func(kind, fclass string, in []byte) {
		if len(sampleInputs) < 48 && (len(sampleInputs) < 8 || fs.Intn(64, "keep") == 0) {
			sampleInputs = append(sampleInputs, append([]byte(nil), in...))
		}
		apply(kind, fclass, in)
	}
	inject(fs, rec, other, fields, format, exhaustive, per, applyAndKeep)
	res.Stats["faulted_inputs"] = res.Stats["decodes"]
	// --- several readers at once (free-running goroutines, not simulated): a
	// decoder that keeps state between calls can corrupt it fatally ("concurrent
	// map writes" is not recoverable) when two callers decode at the same time.
	// A fatal error kills this sacrificial worker and is attributed to the run.
	if idx%4 == 0 {
		variants := append([][]byte{rec, other, bytes.ToLower(rec), bytes.ToUpper(rec), bytes.Title(bytes.ToLower(rec))}, sampleInputs...)
		concurrentReaders(decs, variants)
		res.Stats["fault/concurrent-readers"] += int64(len(variants))
	}

	for t := range c.tuples {
		res.Tuples = append(res.Tuples, t)
	}
	sort.Strings(res.Tuples)
	desc["format"] = formatNames[format]
	desc["record_bytes"] = len(rec)
	desc["exhaustive_single_faults"] = exhaustive
	if len(rec) <= 160 {
		if format == fWKB || format == fTWKB {
			desc["record_hex"] = hex.EncodeToString(rec)
		} else {
			desc["record"] = string(rec)
		}
	}
	res.Sample = desc
	res.Violations = c.viols
	return res
}

// makeRecord is makeRecordUnsafe guarded against a panicking encoder (the
// writers are real code under change too; C08 is about the readers, so a
// writer that panics costs this run its record, nothing more).
func makeRecord(m *vs.Stream, format int, typ uint64, tier string) (rec []byte, fields []field, desc map[string]interface{}) {
	defer func() {
		if r := recover(); r != nil {
			desc = map[string]interface{}{"encoder_panic": fmt.Sprint(r)}
			fields = nil
			switch format {
			case fWKB:
				rec = []byte{1, 1, 0, 0, 0, 0, 0, 0, 0, 0, 0, 0xf0, 0x3f, 0, 0, 0, 0, 0, 0, 0, 0x40}
				fields = scanWKB(rec)
			case fWKT:
				rec = []byte("POINT(1 2)")
			case fTWKB:
				rec = []byte{0x01, 0x00, 0x02, 0x04}
				fields = scanTWKB(rec)
			case fFeature:
				rec = []byte(`{"type":"Feature","geometry":{"type":"Point","coordinates":[1,2]},"properties":null}`)
			case fFeatureCollection:
				rec = []byte(`{"type":"FeatureCollection","features":[]}`)
			default:
				rec = []byte(`{"type":"Point","coordinates":[1,2]}`)
			}
		}
	}()
	return makeRecordUnsafe(m, format, typ, tier)
}

func makeRecordUnsafe(m *vs.Stream, format int, typ uint64, tier string) ([]byte, []field, map[string]interface{}) {
	desc := map[string]interface{}{}
	var lat gen.Lattice
	wild := m.Intn(4, "wild") == 3
	if wild {
		lat = gen.WildLattice(m, 8)
	} else {
		lat = gen.NewLattice(m)
	}
	cfg := gen.Cfg{MaxPts: 12, MaxParts: 4, Depth: 2, CTypes: true, WildZM: m.Intn(3, "wildzm") == 2, Empties: true}
	switch m.Intn(8, "sizeclass") {
	case 5:
		cfg.MaxPts = 60
	case 6:
		cfg.MaxPts = 400
		cfg.MaxParts = 8
	case 7:
		cfg.MaxPts = 4000
		cfg.Depth = 4
	}
	cfg.Invalid = m.Intn(5, "invalid") == 4
	cfg.ForceType = 1 + int(m.Force(7, "gtype", typ))
	g := gen.New(m, lat, cfg)
	var geo geom.Geometry
	if m.Intn(12, "wide") == 11 {
		// very many tiny members (wide.go), cut down until the document fits the domain
		n, ct, variant := wideDraw(m)
		limit := 60 << 10
		if format == fFeatureCollection {
			limit = 19 << 10 // up to three features carry the same geometry
		}
		for {
			geo = wideBuild(n, ct, uint64(cfg.ForceType-1), variant)
			if n <= 8 || wideSize(geo, format) <= limit {
				break
			}
			n = n * 2 / 3
		}
		cfg.Invalid = false
		desc["wide_members"] = n
	} else if cfg.Invalid {
		geo = g.Geometry(cfg.Depth)
	} else {
		geo = g.Valid(cfg.Depth)
	}
	desc["type"] = geo.Type().String()
	desc["ctype"] = geo.CoordinatesType().String()
	desc["valid_source"] = !cfg.Invalid
	desc["wild_xy"] = wild
	var rec []byte
	var fields []field
	switch format {
	case fWKB:
		rec = geo.AsBinary()
		fields = scanWKB(rec)
		// foreign producers: big-endian or mixed-endian variants
		if v := m.Intn(4, "endian"); v >= 2 && fields != nil {
			rec = flipEndian(rec, fields, v == 3, m)
			fields = scanWKB(rec)
			desc["foreign"] = []string{"", "", "big-endian", "mixed-endian"}[v]
		}
	case fWKT:
		rec = []byte(geo.AsText())
		if m.Intn(4, "wktstyle") == 3 {
			rec = bytes.ToLower(rec)
			desc["foreign"] = "lower-case"
		}
	case fGeoJSON:
		rec, _ = geo.MarshalJSON()
	case fTWKB:
		prec := []int{0, 1, 3, 7, -1, -8, 5, 2}[m.Intn(8, "prec")]
		var opts []geom.TWKBWriterOption
		if m.Intn(2, "size") == 1 {
			opts = append(opts, geom.TWKBSizeHeader())
		}
		if m.Intn(2, "bbox") == 1 {
			opts = append(opts, geom.TWKBBoundingBoxHeader())
		}
		if m.Intn(3, "close") == 2 {
			opts = append(opts, geom.TWKBCloseRings())
		}
		if geo.CoordinatesType().Is3D() {
			opts = append(opts, geom.TWKBPrecisionZ(m.Intn(8, "precz")))
		}
		if geo.CoordinatesType().IsMeasured() {
			opts = append(opts, geom.TWKBPrecisionM(m.Intn(8, "precm")))
		}
		if n := numMembers(geo); n > 0 && m.Intn(2, "ids") == 1 {
			ids := make([]int64, n)
			for i := range ids {
				ids[i] = int64(m.Intn(2001, "id")) - 1000
			}
			opts = append(opts, geom.TWKBIDList(ids))
		}
		var err error
		func() {
			// the writer is real code too: if it panics on this geometry with
			// these options, fall back to the plain encoding (the re-encoding
			// oracle meets the same panic on what the decoders return)
			defer func() {
				if r := recover(); r != nil {
					err = fmt.Errorf("encoder panicked: %v", r)
					desc["encoder_panic"] = fmt.Sprint(r)
				}
			}()
			rec, err = geom.MarshalTWKB(geo, prec, opts...)
		}()
		if err != nil {
			func() {
				defer func() { recover() }()
				rec, _ = geom.MarshalTWKB(geo, prec)
			}()
		}
		fields = scanTWKB(rec)
		desc["twkb_precision"] = prec
	case fFeature, fFeatureCollection:
		mk := func() geom.GeoJSONFeature {
			f := geom.GeoJSONFeature{Geometry: geo}
			switch m.Intn(3, "fid") {
			case 1:
				f.ID = "id-1"
			case 2:
				f.ID = 7
			}
			if m.Intn(2, "props") == 1 {
				f.Properties = map[string]interface{}{"name": "x", "n": 1.5, "nested": map[string]interface{}{"a": []interface{}{1, "b"}}}
			}
			return f
		}
		if format == fFeature {
			rec, _ = mk().MarshalJSON()
		} else {
			n := m.Intn(4, "nfeat")
			fc := make(geom.GeoJSONFeatureCollection, n)
			for i := range fc {
				fc[i] = mk()
			}
			rec, _ = fc.MarshalJSON()
		}
	}
	return rec, fields, desc
}

func numMembers(g geom.Geometry) int {
	switch g.Type() {
	case geom.TypeMultiPoint:
		return g.MustAsMultiPoint().NumPoints()
	case geom.TypeMultiLineString:
		return g.MustAsMultiLineString().NumLineStrings()
	case geom.TypeMultiPolygon:
		return g.MustAsMultiPolygon().NumPolygons()
	case geom.TypeGeometryCollection:
		return g.MustAsGeometryCollection().NumGeometries()
	}
	return 0
}

// flipEndian rewrites a little-endian WKB as big-endian (all, or a seeded
// subset of the nested geometries: mixed-endian, as some producers emit).
func flipEndian(rec []byte, fields []field, mixed bool, m *vs.Stream) []byte {
	out := append([]byte(nil), rec...)
	flip := false
	for _, f := range fields {
		if f.kind == "bo" {
			flip = !mixed || m.Intn(2, "mix") == 1
			if flip {
				out[f.off] ^= 1
			}
			continue
		}
		if flip {
			for i, j := f.off, f.off+f.n-1; i < j; i, j = i+1, j-1 {
				out[i], out[j] = out[j], out[i]
			}
		}
	}
	return out
}
