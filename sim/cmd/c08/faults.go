package main

import (
	"bytes"
	"encoding/binary"
	"encoding/hex"
	"strings"

	vs "github.com/peterstace/simplefeatures/verifsim"
	"verifsim.local/sim/gen"
)

type applyFn func(kind, fieldClass string, in []byte)

// positions returns all positions 0..n-1 when complete, else up to per
// positions: the first and last 8 plus seeded ones.
func positions(fs *vs.Stream, n int, complete bool, per int) []int {
	if n <= 0 {
		return nil
	}
	if complete || n <= per {
		out := make([]int, n)
		for i := range out {
			out[i] = i
		}
		return out
	}
	seen := map[int]bool{}
	var out []int
	add := func(p int) {
		if p >= 0 && p < n && !seen[p] {
			seen[p] = true
			out = append(out, p)
		}
	}
	edge := per / 4
	if edge > 64 {
		edge = 64
	}
	for i := 0; i < edge; i++ {
		add(i)
		add(n - 1 - i)
	}
	for len(out) < per {
		add(fs.Intn(n, "pos"))
	}
	return out
}

func fieldAt(fields []field, pos int) string {
	for _, f := range fields {
		if pos >= f.off && pos < f.off+f.n {
			return f.kind
		}
	}
	return "blind"
}

func clone(b []byte) []byte { return append([]byte(nil), b...) }

var countValues = []uint32{0, 1, 1<<31 - 1, 1 << 31, 1<<32 - 1, 1 << 24, 1 << 16}

func wkbTypeValues() []uint32 {
	vals := []uint32{999, 1<<32 - 1, 4000, 4007, 1 << 31}
	for k := uint32(0); k <= 4; k++ {
		for t := uint32(0); t <= 8; t++ {
			vals = append(vals, 1000*k+t)
		}
	}
	// EWKB style flags
	vals = append(vals, 0x20000001, 0x80000002, 0x40000003, 0xC0000007)
	return vals
}

func putVarint(v uint64) []byte {
	var buf [binary.MaxVarintLen64]byte
	return buf[:binary.PutUvarint(buf[:], v)]
}

func replaceSpan(rec []byte, off, n int, with []byte) []byte {
	out := make([]byte, 0, len(rec)-n+len(with))
	out = append(out, rec[:off]...)
	out = append(out, with...)
	return append(out, rec[off+n:]...)
}

// inject enumerates (or samples) single faults of every kind, then seeded
// fault sequences and arbitrary strings.
func inject(fs *vs.Stream, rec, other []byte, fields []field, format int, complete bool, per int, apply applyFn) {
	n := len(rec)
	binaryFmt := format == fWKB || format == fTWKB

	// --- short write: every truncation point
	for _, p := range positions(fs, n, complete, per) {
		apply("short-write", fieldAt(fields, p), rec[:p])
	}
	// --- bit rot: every byte x 8 bits
	bitPer := per
	for _, p := range positions(fs, n, complete, bitPer) {
		fc := fieldAt(fields, p)
		bits := []int{0, 1, 2, 3, 4, 5, 6, 7}
		if !complete {
			bits = []int{fs.Intn(8, "bit"), 7}
		}
		for _, b := range bits {
			x := clone(rec)
			x[p] ^= 1 << uint(b)
			apply("bit-rot", fc, x)
		}
	}
	// --- byte substitution: all 256 values at structural offsets
	structural := map[int]string{}
	if binaryFmt {
		for _, f := range fields {
			switch f.kind {
			case "bo", "type", "count", "typeprec", "meta", "ext", "size", "id":
				for i := 0; i < f.n; i++ {
					structural[f.off+i] = f.kind
				}
			case "delta", "bbox":
				structural[f.off] = f.kind + "-first"
				structural[f.off+f.n-1] = f.kind + "-last"
			}
		}
		if fields == nil {
			for i := 0; i < n && i < 16; i++ {
				structural[i] = "head"
			}
		}
	} else {
		for _, t := range lexText(rec) {
			if t.kind == "punct" || t.kind == "word" || t.kind == "string" {
				structural[t.off] = t.kind
				if t.n > 1 {
					structural[t.off+t.n-1] = t.kind
				}
			}
		}
	}
	var sp []int
	for p := range structural {
		sp = append(sp, p)
	}
	sortInts(sp)
	spBudget := minInt(per/4, 256)
	if !complete && len(sp) > spBudget {
		// sample structural offsets but keep the head of the record
		keep := sp[:minInt(len(sp), 8)]
		for len(keep) < spBudget {
			keep = append(keep, sp[fs.Intn(len(sp), "sp")])
		}
		sp = keep
	}
	for _, p := range sp {
		for v := 0; v < 256; v++ {
			if byte(v) == rec[p] {
				continue
			}
			if !complete && v%8 != int(p)%8 && v != 0 && v != 255 && v != 0x7f && v != 0x80 {
				continue
			}
			x := clone(rec)
			x[p] = byte(v)
			apply("byte-substitute", structural[p], x)
		}
	}
	// --- non-structural bytes: boundary values
	for _, p := range positions(fs, n, complete, per) {
		if _, ok := structural[p]; ok {
			continue
		}
		for _, v := range []byte{0x00, 0xff, 0x7f, 0x80} {
			if rec[p] == v {
				continue
			}
			x := clone(rec)
			x[p] = v
			apply("byte-boundary", fieldAt(fields, p), x)
		}
	}
	// --- field smashes
	var cf []field
	for _, f := range fields {
		if f.kind == "count" || f.kind == "type" || f.kind == "size" || f.kind == "id" || f.kind == "delta" || f.kind == "bbox" {
			cf = append(cf, f)
		}
	}
	cfBudget := minInt(per, 256)
	if !complete && len(cf) > cfBudget {
		var keep []field
		keep = append(keep, cf[:minInt(8, len(cf))]...)
		for len(keep) < cfBudget {
			keep = append(keep, cf[fs.Intn(len(cf), "cf")])
		}
		cf = keep
	}
	for _, f := range cf {
		if format == fWKB {
			put := func(v uint32) []byte {
				x := clone(rec)
				if f.big {
					binary.BigEndian.PutUint32(x[f.off:], v)
				} else {
					binary.LittleEndian.PutUint32(x[f.off:], v)
				}
				return x
			}
			switch f.kind {
			case "count":
				var cur uint32
				if f.big {
					cur = binary.BigEndian.Uint32(rec[f.off:])
				} else {
					cur = binary.LittleEndian.Uint32(rec[f.off:])
				}
				for _, v := range append(countValues, cur+1, cur-1, cur*2+1) {
					apply("count-smash", "count", put(v))
				}
			case "type":
				for _, v := range wkbTypeValues() {
					apply("type-smash", "type", put(v))
				}
			}
		} else if format == fTWKB {
			ks := []int{0, 1, 7, 8, 15, 16, 24, 31, 32, 33, 40, 48, 56, 62, 63}
			if complete {
				ks = ks[:0]
				for k := 0; k < 64; k++ {
					ks = append(ks, k)
				}
			}
			for _, k := range ks {
				apply("varint-smash", f.kind, replaceSpan(rec, f.off, f.n, putVarint(uint64(1)<<uint(k))))
				if k > 0 {
					apply("varint-smash", f.kind, replaceSpan(rec, f.off, f.n, putVarint(uint64(1)<<uint(k)-1)))
				}
			}
			apply("varint-smash", f.kind, replaceSpan(rec, f.off, f.n, putVarint(^uint64(0))))
			// over-long and unterminated varints
			apply("varint-smash", f.kind, replaceSpan(rec, f.off, f.n, bytes.Repeat([]byte{0xff}, 10)))
			apply("varint-smash", f.kind, replaceSpan(rec, f.off, f.n, append(bytes.Repeat([]byte{0x80}, 11), 0x01)))
		}
	}
	// --- ordinate smash: special float values in coordinate fields
	if format == fWKB {
		var ords []field
		for _, f := range fields {
			if f.kind == "ord" {
				ords = append(ords, f)
			}
		}
		if !complete && len(ords) > 12 {
			keep := append([]field(nil), ords[:4]...)
			for len(keep) < 12 {
				keep = append(keep, ords[fs.Intn(len(ords), "ord")])
			}
			ords = keep
		}
		for _, f := range ords {
			for _, bits := range []uint64{0x7FF0000000000000, 0xFFF0000000000000, 0x7FF8000000000001, 0x8000000000000000, 1, 0x7FEFFFFFFFFFFFFF, 0xFFEFFFFFFFFFFFFF, 0x0010000000000000} {
				x := clone(rec)
				if f.big {
					binary.BigEndian.PutUint64(x[f.off:], bits)
				} else {
					binary.LittleEndian.PutUint64(x[f.off:], bits)
				}
				apply("ordinate-smash", "ord", x)
			}
		}
	}
	// --- sector faults
	for _, ss := range []int{1, 8, 16, 64, 512} {
		ns := (n + ss - 1) / ss
		if ns <= 1 && ss > 1 {
			continue
		}
		for _, si := range positions(fs, ns, complete, minInt(per, 64)) {
			lo, hi := si*ss, minInt((si+1)*ss, n)
			fc := fieldAt(fields, lo)
			if ss > 1 { // ss==1 zeroing is covered by byte-boundary
				x := clone(rec)
				for i := lo; i < hi; i++ {
					x[i] = 0
				}
				apply("lost-sector", fc, x)
			}
			// stale / misdirected: same sector index of another record
			if lo < len(other) {
				x := clone(rec)
				copy(x[lo:hi], other[lo:minInt(hi, len(other))])
				apply("misdirected-sector", fc, x)
			}
			// duplicated: sector si written again over sector si+1
			if hi < n {
				x := clone(rec)
				copy(x[hi:], rec[lo:hi])
				apply("duplicated-sector", fc, x)
				// and inserted (stream duplication)
				if ss <= 16 {
					apply("duplicated-sector", fc, replaceSpan(rec, hi, 0, rec[lo:hi]))
				}
			}
			// dropped from a stream
			if ss <= 16 {
				apply("dropped-sector", fc, replaceSpan(rec, lo, hi-lo, nil))
			}
		}
	}
	// --- torn writes: prefix of the new record + suffix of what was there
	for _, p := range positions(fs, n, complete && n <= 128, minInt(per, 128)) {
		fc := fieldAt(fields, p)
		x := clone(rec)
		for i := p; i < n; i++ {
			x[i] = 0
		}
		apply("torn-write", fc, x)
		if p < len(other) {
			apply("torn-write", fc, append(clone(rec[:p]), other[p:]...))
		}
		g := clone(rec)
		sd := uint64(p)*2654435761 + 12345
		for i := p; i < n; i++ {
			sd = sd*6364136223846793005 + 1442695040888963407
			g[i] = byte(sd >> 56)
		}
		apply("torn-write", fc, g)
	}
	// --- splice: head of A + tail of B at independent cut points
	for i := 0; i < minInt(per, 64); i++ {
		a := fs.Intn(n+1, "spa")
		b := fs.Intn(len(other)+1, "spb")
		apply("splice", fieldAt(fields, a), append(clone(rec[:a]), other[b:]...))
	}
	// --- trailing garbage
	apply("trailing-garbage", "-", append(clone(rec), 0))
	apply("trailing-garbage", "-", append(clone(rec), rec...))
	apply("trailing-garbage", "-", append(clone(rec), other...))
	apply("trailing-garbage", "-", append(clone(rec), bytes.Repeat([]byte{0xff}, 64)...))
	if !binaryFmt {
		apply("trailing-garbage", "-", append(clone(rec), []byte(" x")...))
		apply("trailing-garbage", "-", append([]byte("\xef\xbb\xbf"), rec...))
	}

	// --- deep nesting in the binary formats (collections of one collection of ...)
	// (one record in eight: re-encoding a 700-deep collection as GeoJSON takes
	// ~0.2 s, MarshalJSON being quadratic in the nesting depth)
	if (format == fWKB || format == fTWKB) && fs.Intn(8, "deepbin") == 0 {
		for _, depth := range []int{64, 700} {
			var x []byte
			if format == fWKB {
				for i := 0; i < depth; i++ {
					x = append(x, 1, 7, 0, 0, 0, 1, 0, 0, 0)
				}
				pt := make([]byte, 21)
				pt[0], pt[1] = 1, 1
				x = append(x, pt...)
				apply("deep-nesting", "-", x)
				apply("deep-nesting", "-", x[:len(x)-21]) // cut after the innermost header
			} else {
				for i := 0; i < depth; i++ {
					x = append(x, 0x07, 0x00, 0x01)
				}
				x = append(x, 0x01, 0x00, 0x02, 0x04)
				apply("deep-nesting", "-", x)
				apply("deep-nesting", "-", x[:len(x)-4])
			}
		}
	}
	// --- hex text: PostGIS hands WKB to text-mode clients as hex; a string
	// scanner may meet it (whole, truncated to odd and even lengths, dirty)
	if format == fWKB {
		hx := []byte(hex.EncodeToString(rec))
		apply("hex-text", "-", hx)
		apply("hex-text", "-", bytes.ToUpper(hx))
		for _, p := range positions(fs, minInt(len(hx), 96), complete, minInt(per, 48)) {
			apply("hex-text", "-", hx[:p])
		}
		for i := 0; i < 8 && len(hx) > 0; i++ {
			x := clone(hx)
			x[fs.Intn(len(x), "hx")] = "0123456789abcdefABCDEFxg "[fs.Intn(25, "hv")]
			apply("hex-text", "-", x[:fs.Intn(len(x)+1, "hl")])
		}
	}
	// --- positions carrying many extra values (allowed by RFC 7946, ignored by
	// decoders) next to many ordinary positions
	if format == fGeoJSON {
		for _, kn := range [][2]int{{8000, 8000}, {3000, 2000}, {20000, 3000}} {
			first := "[1,2" + strings.Repeat(",0", kn[0]) + "]"
			rest := strings.Repeat(",[1,2]", kn[1])
			apply("extra-values", "number", []byte(`{"type":"LineString","coordinates":[`+first+rest+`]}`))
			apply("extra-values", "number", []byte(`{"type":"Polygon","coordinates":[[`+first+rest+`,[1,2`+strings.Repeat(",0", kn[0])+`]]]}`))
			apply("extra-values", "number", []byte(`{"type":"MultiPoint","coordinates":[`+first+rest+`]}`))
		}
	}
	// --- token-level faults for text formats
	if !binaryFmt {
		injectTokens(fs, rec, format, complete, per, apply)
		// grammar-generated documents (and one token mutation of each)
		ng := per * 2
		if complete {
			ng = 1024
		}
		for i := 0; i < ng; i++ {
			var doc string
			switch format {
			case fWKT:
				doc = gen.GrammarWKT(fs, 2)
			case fGeoJSON:
				doc = gen.GrammarGeoJSON(fs, 2)
			case fFeature:
				doc = `{"type":"Feature","geometry":` + gen.GrammarGeoJSON(fs, 2) + `,"properties":null}`
			default:
				doc = `{"type":"FeatureCollection","features":[{"type":"Feature","geometry":` + gen.GrammarGeoJSON(fs, 1) + `,"properties":{}},{"type":"Feature","geometry":` + gen.GrammarGeoJSON(fs, 1) + `,"properties":null}]}`
			}
			apply("grammar-generated", "-", []byte(doc))
			if i%4 == 0 {
				toks := lexText([]byte(doc))
				if len(toks) > 0 {
					t := toks[fs.Intn(len(toks), "gt")]
					reps := numberReplacements
					if t.kind != "number" {
						reps = []string{"", "[", "]", "(", ")", ",", "null", "EMPTY", "1"}
					}
					apply("grammar-generated+token", t.kind, []byte(doc[:t.off]+reps[fs.Intn(len(reps), "gr")]+doc[t.off+t.n:]))
				}
			}
		}
	}

	// --- fault sequences (2-3 faults)
	nseq := per
	if complete {
		nseq = 512
	}
	for i := 0; i < nseq; i++ {
		x := clone(rec)
		k := 2 + fs.Intn(2, "seqlen")
		for j := 0; j < k && len(x) > 0; j++ {
			switch fs.Intn(6, "seqkind") {
			case 0:
				x = x[:fs.Intn(len(x)+1, "p")]
			case 1:
				x[fs.Intn(len(x), "p")] ^= 1 << uint(fs.Intn(8, "b"))
			case 2:
				x[fs.Intn(len(x), "p")] = byte(fs.Intn(256, "v"))
			case 3:
				if len(cf) > 0 && format == fWKB {
					f := cf[fs.Intn(len(cf), "f")]
					if f.off+4 <= len(x) {
						binary.LittleEndian.PutUint32(x[f.off:], countValues[fs.Intn(len(countValues), "cv")])
					}
				} else if len(cf) > 0 && format == fTWKB {
					f := cf[fs.Intn(len(cf), "f")]
					if f.off+f.n <= len(x) {
						x = replaceSpan(x, f.off, f.n, putVarint(uint64(1)<<uint(fs.Intn(64, "k"))))
					}
				} else {
					p := fs.Intn(len(x), "p")
					x = replaceSpan(x, p, 1, nil)
				}
			case 4:
				ss := []int{8, 16, 64}[fs.Intn(3, "ss")]
				lo := fs.Intn(len(x), "p") / ss * ss
				hi := minInt(lo+ss, len(x))
				for q := lo; q < hi; q++ {
					x[q] = 0
				}
			default:
				a := fs.Intn(len(x)+1, "p")
				b := fs.Intn(len(other)+1, "p")
				x = append(x[:a:a], other[b:]...)
			}
		}
		apply("fault-sequence", "-", x)
	}
	// --- arbitrary strings
	narb := per / 2
	for i := 0; i < narb; i++ {
		var ln int
		switch fs.Intn(4, "arblen") {
		case 0:
			ln = fs.Intn(16, "l")
		case 1:
			ln = fs.Intn(256, "l")
		case 2:
			ln = fs.Intn(4096, "l")
		default:
			ln = fs.Intn(65536, "l")
		}
		x := make([]byte, ln)
		sd := fs.Draw(0, "arbseed")
		mode := fs.Intn(3, "arbmode")
		for j := range x {
			sd = sd*6364136223846793005 + 1442695040888963407
			switch mode {
			case 0:
				x[j] = byte(sd >> 56)
			case 1: // small alphabet: structure-like bytes
				x[j] = []byte{0, 1, 2, 3, 4, 5, 6, 7, 0x80, 0xff, 0x10, 0x20}[(sd>>56)%12]
			default: // printable
				const alpha = "()[]{},:\"0123456789.-eE POINTLSRGMYZCUAptyecordinas"
				x[j] = alpha[(sd>>56)%uint64(len(alpha))]
			}
		}
		// plausible header then noise
		if fs.Intn(2, "hdr") == 1 && len(rec) > 0 {
			h := minInt(len(rec), 1+fs.Intn(24, "hl"))
			x = append(clone(rec[:h]), x...)
		}
		apply("arbitrary-bytes", "-", x)
	}
}

func sortInts(a []int) {
	for i := 1; i < len(a); i++ {
		for j := i; j > 0 && a[j] < a[j-1]; j-- {
			a[j], a[j-1] = a[j-1], a[j]
		}
	}
}

func minInt(a, b int) int {
	if a < b {
		return a
	}
	return b
}

var numberReplacements = []string{"nan", "NaN", "inf", "-inf", "Infinity", "1e999", "-1e999", "1e-999", "0x10", "1_000", "+1", ".5", "5.", "1e", "--1", "1.2.3", "-0", "00", "1e+308", "9007199254740993", strings.Repeat("9", 400), "0." + strings.Repeat("0", 400) + "1", "null", "true", "\"1\"", "[]", "{}", ""}
var wordReplacements = []string{"POINT", "LINESTRING", "POLYGON", "MULTIPOINT", "MULTILINESTRING", "MULTIPOLYGON", "GEOMETRYCOLLECTION", "EMPTY", "Z", "M", "ZM", "TRIANGLE", "point", "Point", "null", "true", "", "SRID=4326;POINT"}
var stringReplacements = []string{`"Point"`, `"LineString"`, `"Polygon"`, `"MultiPoint"`, `"MultiLineString"`, `"MultiPolygon"`, `"GeometryCollection"`, `"Feature"`, `"FeatureCollection"`, `"type"`, `"coordinates"`, `"geometries"`, `"geometry"`, `"features"`, `"properties"`, `"id"`, `"bbox"`, `""`, `"\u0000"`, `null`, `1`, `[]`, `{}`}

// injectTokens applies token-level faults to WKT / GeoJSON text.
func injectTokens(fs *vs.Stream, rec []byte, format int, complete bool, per int, apply applyFn) {
	toks := lexText(rec)
	var idx []int
	for i, t := range toks {
		if t.kind != "space" {
			idx = append(idx, i)
		}
	}
	if len(idx) == 0 {
		return
	}
	rebuild := func(edit func(i int, t token) (string, bool)) []byte {
		var out []byte
		for i, t := range toks {
			if s, ok := edit(i, t); ok {
				out = append(out, s...)
			} else {
				out = append(out, rec[t.off:t.off+t.n]...)
			}
		}
		return out
	}
	sel := idx
	tokBudget := minInt(per, 256)
	if !(complete && len(idx) <= 256) && len(idx) > tokBudget {
		sel = nil
		for i := 0; i < tokBudget; i++ {
			sel = append(sel, idx[fs.Intn(len(idx), "tok")])
		}
	}
	for _, ti := range sel {
		t := toks[ti]
		text := string(rec[t.off : t.off+t.n])
		// drop
		apply("token-drop", t.kind, rebuild(func(i int, _ token) (string, bool) { return "", i == ti }))
		// duplicate
		apply("token-duplicate", t.kind, rebuild(func(i int, _ token) (string, bool) { return text + " " + text, i == ti }))
		// swap with next non-space token
		for _, tj := range idx {
			if tj > ti {
				other := string(rec[toks[tj].off : toks[tj].off+toks[tj].n])
				apply("token-swap", t.kind, rebuild(func(i int, _ token) (string, bool) {
					if i == ti {
						return other, true
					}
					if i == tj {
						return text, true
					}
					return "", false
				}))
				break
			}
		}
		var reps []string
		switch t.kind {
		case "number":
			reps = numberReplacements
		case "word":
			reps = wordReplacements
		case "string":
			reps = stringReplacements
		case "punct":
			reps = []string{"(", ")", "[", "]", "{", "}", ",", ":", "((", "))", "[[", "]]", ";", "\"", " "}
		}
		if !complete && len(reps) > 6 {
			r0 := fs.Intn(len(reps), "rep")
			reps = []string{reps[r0], reps[(r0+7)%len(reps)], reps[(r0+13)%len(reps)], reps[0], reps[len(reps)-1], reps[len(reps)/2]}
		}
		for _, r := range reps {
			if r == text {
				continue
			}
			apply("token-replace", t.kind, rebuild(func(i int, _ token) (string, bool) { return r, i == ti }))
		}
	}
	// deep nesting
	for _, depth := range []int{64, 5000} {
		switch format {
		case fWKT:
			apply("deep-nesting", "-", []byte(strings.Repeat("GEOMETRYCOLLECTION(", depth)+"POINT(1 2)"+strings.Repeat(")", depth)))
			apply("deep-nesting", "-", []byte("POLYGON"+strings.Repeat("(", depth)+"1 2"+strings.Repeat(")", depth)))
			apply("deep-nesting", "-", []byte(strings.Repeat("GEOMETRYCOLLECTION(", depth)))
		default:
			apply("deep-nesting", "-", []byte(strings.Repeat(`{"type":"GeometryCollection","geometries":[`, depth)+`{"type":"Point","coordinates":[1,2]}`+strings.Repeat("]}", depth)))
			apply("deep-nesting", "-", []byte(`{"type":"Polygon","coordinates":`+strings.Repeat("[", depth)+"1,2"+strings.Repeat("]", depth)+"}"))
			apply("deep-nesting", "-", []byte(`{"type":"Point","coordinates":`+strings.Repeat("[", depth)))
		}
	}
	// GeoJSON positions with 0..5 elements
	if format != fWKT {
		for k := 0; k <= 5; k++ {
			pos := "[" + strings.TrimSuffix(strings.Repeat("1,", k), ",") + "]"
			apply("position-arity", "number", []byte(`{"type":"Point","coordinates":`+pos+`}`))
			apply("position-arity", "number", []byte(`{"type":"LineString","coordinates":[[0,0],`+pos+`]}`))
			apply("position-arity", "number", []byte(`{"type":"Polygon","coordinates":[[[0,0],[0,1],[1,0],`+pos+`,[0,0]]]}`))
			apply("position-arity", "number", []byte(`{"type":"MultiPoint","coordinates":[`+pos+`,[1,2,3]]}`))
		}
	} else {
		// PostGIS-style bare multipoint and mixed forms
		apply("foreign-wkt", "-", []byte("MULTIPOINT(1 2, 3 4)"))
		apply("foreign-wkt", "-", []byte("MULTIPOINT(1 2, (3 4), EMPTY)"))
		apply("foreign-wkt", "-", []byte("MULTIPOINT Z (1 2 3, EMPTY)"))
		apply("foreign-wkt", "-", []byte("POINT ZM (1 2 3)"))
		apply("foreign-wkt", "-", []byte("LINESTRING M (1 2 3 4, 5 6 7)"))
		apply("foreign-wkt", "-", []byte("GEOMETRYCOLLECTION Z (POINT (1 2))"))
	}
}
