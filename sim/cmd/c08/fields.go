package main

import (
	"encoding/binary"
)

// field is one structural element of an encoded record, found by the
// harness's own scanners (never by the library's parsers).
type field struct {
	off, n int
	kind   string // bo | type | count | ord | typeprec | meta | ext | size | bbox | id | delta
	big    bool   // WKB: field is big-endian
}

// scanWKB walks a syntactically valid WKB and lists its fields. It returns
// nil if the bytes are not a well-formed WKB (then faults fall back to blind
// positions).
func scanWKB(b []byte) []field {
	var fs []field
	var walk func(off int, depth int) int
	walk = func(off int, depth int) int {
		if off < 0 || off+5 > len(b) || depth > 64 {
			return -1
		}
		big := b[off] == 0
		if b[off] > 1 {
			return -1
		}
		u32 := func(o int) uint32 {
			if big {
				return binary.BigEndian.Uint32(b[o:])
			}
			return binary.LittleEndian.Uint32(b[o:])
		}
		fs = append(fs, field{off, 1, "bo", big}, field{off + 1, 4, "type", big})
		code := u32(off + 1)
		gt := code % 1000
		dim := 2
		switch code / 1000 {
		case 1, 2:
			dim = 3
		case 3:
			dim = 4
		}
		off += 5
		ords := func(n int) bool {
			for i := 0; i < n; i++ {
				if off+8 > len(b) {
					return false
				}
				fs = append(fs, field{off, 8, "ord", big})
				off += 8
			}
			return true
		}
		count := func() (int, bool) {
			if off+4 > len(b) {
				return 0, false
			}
			fs = append(fs, field{off, 4, "count", big})
			n := int(u32(off))
			off += 4
			if n > len(b) {
				return 0, false
			}
			return n, true
		}
		switch gt {
		case 1:
			if !ords(dim) {
				return -1
			}
		case 2:
			n, ok := count()
			if !ok || !ords(n*dim) {
				return -1
			}
		case 3:
			n, ok := count()
			if !ok {
				return -1
			}
			for i := 0; i < n; i++ {
				m, ok := count()
				if !ok || !ords(m*dim) {
					return -1
				}
			}
		case 4, 5, 6, 7:
			n, ok := count()
			if !ok {
				return -1
			}
			for i := 0; i < n; i++ {
				off = walk(off, depth+1)
				if off < 0 {
					return -1
				}
			}
		default:
			return -1
		}
		return off
	}
	if walk(0, 0) < 0 {
		return nil
	}
	return fs
}

// scanTWKB walks a syntactically valid TWKB and lists its fields.
func scanTWKB(b []byte) []field {
	var fs []field
	var walk func(off int, depth int) int
	walk = func(off int, depth int) int {
		if off < 0 || off+2 > len(b) || depth > 64 {
			return -1
		}
		fs = append(fs, field{off: off, n: 1, kind: "typeprec"}, field{off: off + 1, n: 1, kind: "meta"})
		kind := int(b[off] & 0x0f)
		meta := b[off+1]
		off += 2
		dims := 2
		if meta&0x08 != 0 {
			if off >= len(b) {
				return -1
			}
			fs = append(fs, field{off: off, n: 1, kind: "ext"})
			if b[off]&1 != 0 {
				dims++
			}
			if b[off]&2 != 0 {
				dims++
			}
			off++
		}
		uv := func(kind string) (uint64, bool) {
			if off >= len(b) {
				return 0, false
			}
			v, n := binary.Uvarint(b[off:])
			if n <= 0 {
				return 0, false
			}
			fs = append(fs, field{off: off, n: n, kind: kind})
			off += n
			return v, true
		}
		if meta&0x02 != 0 {
			if _, ok := uv("size"); !ok {
				return -1
			}
		}
		if meta&0x01 != 0 {
			for i := 0; i < 2*dims; i++ {
				if _, ok := uv("bbox"); !ok {
					return -1
				}
			}
		}
		if meta&0x10 != 0 { // empty
			return off
		}
		hasIDs := meta&0x04 != 0
		pts := func(n uint64) bool {
			if n > uint64(len(b)) {
				return false
			}
			for i := uint64(0); i < n*uint64(dims); i++ {
				if _, ok := uv("delta"); !ok {
					return false
				}
			}
			return true
		}
		ids := func(n uint64) bool {
			if !hasIDs {
				return true
			}
			if n > uint64(len(b)) {
				return false
			}
			for i := uint64(0); i < n; i++ {
				if _, ok := uv("id"); !ok {
					return false
				}
			}
			return true
		}
		line := func() bool {
			n, ok := uv("count")
			return ok && pts(n)
		}
		poly := func() bool {
			n, ok := uv("count")
			if !ok || n > uint64(len(b)) {
				return false
			}
			for i := uint64(0); i < n; i++ {
				if !line() {
					return false
				}
			}
			return true
		}
		switch kind {
		case 1:
			if !pts(1) {
				return -1
			}
		case 2:
			if !line() {
				return -1
			}
		case 3:
			if !poly() {
				return -1
			}
		case 4:
			n, ok := uv("count")
			if !ok || !ids(n) || !pts(n) {
				return -1
			}
		case 5:
			n, ok := uv("count")
			if !ok || !ids(n) || n > uint64(len(b)) {
				return -1
			}
			for i := uint64(0); i < n; i++ {
				if !line() {
					return -1
				}
			}
		case 6:
			n, ok := uv("count")
			if !ok || !ids(n) || n > uint64(len(b)) {
				return -1
			}
			for i := uint64(0); i < n; i++ {
				if !poly() {
					return -1
				}
			}
		case 7:
			n, ok := uv("count")
			if !ok || !ids(n) || n > uint64(len(b)) {
				return -1
			}
			for i := uint64(0); i < n; i++ {
				off = walk(off, depth+1)
				if off < 0 {
					return -1
				}
			}
		default:
			return -1
		}
		return off
	}
	if walk(0, 0) < 0 {
		return nil
	}
	return fs
}

// token is one lexical element of a text record.
type token struct {
	off, n int
	kind   string // word | number | punct | string | space
}

// lexText splits WKT or JSON text into tokens (own lexer, format-agnostic).
func lexText(b []byte) []token {
	var ts []token
	i := 0
	for i < len(b) {
		c := b[i]
		start := i
		switch {
		case c == ' ' || c == '\t' || c == '\n' || c == '\r':
			for i < len(b) && (b[i] == ' ' || b[i] == '\t' || b[i] == '\n' || b[i] == '\r') {
				i++
			}
			ts = append(ts, token{start, i - start, "space"})
		case c == '"':
			i++
			for i < len(b) && b[i] != '"' {
				if b[i] == '\\' {
					i++
				}
				i++
			}
			if i < len(b) {
				i++
			}
			ts = append(ts, token{start, i - start, "string"})
		case (c >= '0' && c <= '9') || c == '-' || c == '+' || c == '.':
			for i < len(b) && ((b[i] >= '0' && b[i] <= '9') || b[i] == '-' || b[i] == '+' || b[i] == '.' || b[i] == 'e' || b[i] == 'E') {
				i++
			}
			ts = append(ts, token{start, i - start, "number"})
		case (c >= 'a' && c <= 'z') || (c >= 'A' && c <= 'Z') || c == '_':
			for i < len(b) && ((b[i] >= 'a' && b[i] <= 'z') || (b[i] >= 'A' && b[i] <= 'Z') || b[i] == '_') {
				i++
			}
			ts = append(ts, token{start, i - start, "word"})
		default:
			i++
			ts = append(ts, token{start, 1, "punct"})
		}
	}
	return ts
}
