// Package verifsim is the runtime half of the /verif deterministic simulator.
// It is copied into a scratch copy of the repository (never into /repo) as
// github.com/peterstace/simplefeatures/verifsim so that AST-instrumented
// library code and the harness share one scheduler, one set of choice streams
// and one map-order seam. It must stay Go 1.17 compatible (the repository's
// go directive) and must not import anything outside the standard library.
package verifsim

import (
	"encoding/json"
	"fmt"
)

// Entry is one recorded choice: Draw(N, L) returned V (V < N, or N == 0 for a
// raw 64-bit draw).
type Entry struct {
	L string
	N uint64
	V uint64
}

// MarshalJSON encodes an entry compactly as ["label", n, v].
func (e Entry) MarshalJSON() ([]byte, error) {
	return []byte(fmt.Sprintf("[%q,%d,%d]", e.L, e.N, e.V)), nil
}

// UnmarshalJSON decodes ["label", n, v].
func (e *Entry) UnmarshalJSON(b []byte) error {
	var raw []json.RawMessage
	if err := json.Unmarshal(b, &raw); err != nil || len(raw) != 3 {
		return fmt.Errorf("bad trace entry %s", b)
	}
	if err := json.Unmarshal(raw[0], &e.L); err != nil {
		return err
	}
	if err := json.Unmarshal(raw[1], &e.N); err != nil {
		return err
	}
	return json.Unmarshal(raw[2], &e.V)
}

// Trace is the complete set of choices of one run, one list per stream.
// Streams: "main" (scenario construction, drawn before any task starts),
// "sched" (drawn only by the scheduler goroutine) and "t<i>" (drawn only by
// task i, on its own goroutine). Streams share nothing, so drawing never
// creates a cross-goroutine access for the race detector to see.
type Trace map[string][]Entry

// Stream is one source of choices. In generate mode values come from a
// xoshiro256** PRNG seeded from (run seed, stream name); in replay mode from a
// recorded list. Every draw actually made is (re-)recorded in Rec, so the
// trace that comes out of a lenient replay is again an exact trace.
type Stream struct {
	Name    string
	s       [4]uint64
	Rec     []Entry
	replay  []Entry
	pos     int
	replayM bool
	strict  bool
	// Invalid is set in strict replay when the recorded label or range does
	// not match the request: the trace does not belong to this code.
	Invalid string
	// NoRecord turns recording off (for bulk data draws whose values are
	// reconstructed from a sub-seed instead).
	NoRecord bool
	draws    int64
}

func splitmix(x *uint64) uint64 {
	*x += 0x9e3779b97f4a7c15
	z := *x
	z = (z ^ (z >> 30)) * 0xbf58476d1ce4e5b9
	z = (z ^ (z >> 27)) * 0x94d049bb133111eb
	return z ^ (z >> 31)
}

// Mix derives a 64-bit value from a seed and a list of words (deterministic,
// platform independent).
func Mix(seed uint64, words ...uint64) uint64 {
	x := seed
	out := splitmix(&x)
	for _, w := range words {
		x ^= w * 0xd6e8feb86659fd93
		out ^= splitmix(&x)
	}
	return out
}

// HashString is FNV-1a 64.
func HashString(s string) uint64 {
	h := uint64(14695981039346656037)
	for i := 0; i < len(s); i++ {
		h ^= uint64(s[i])
		h *= 1099511628211
	}
	return h
}

// NewStream returns a generating stream.
func NewStream(seed uint64, name string) *Stream {
	st := &Stream{Name: name}
	x := Mix(seed, HashString(name))
	for i := range st.s {
		st.s[i] = splitmix(&x)
	}
	return st
}

// NewReplayStream returns a stream that replays rec. In lenient mode labels
// are ignored and values are reduced modulo the requested range (used while
// shrinking); in strict mode a mismatch marks the stream invalid. Past the
// end of the recording every draw is 0, the simplest choice by construction.
func NewReplayStream(name string, rec []Entry, strict bool) *Stream {
	return &Stream{Name: name, replay: rec, replayM: true, strict: strict}
}

func rotl(x uint64, k uint) uint64 { return (x << k) | (x >> (64 - k)) }

func (st *Stream) next() uint64 {
	s := &st.s
	r := rotl(s[1]*5, 7) * 9
	t := s[1] << 17
	s[2] ^= s[0]
	s[3] ^= s[1]
	s[1] ^= s[2]
	s[0] ^= s[3]
	s[2] ^= t
	s[3] = rotl(s[3], 45)
	return r
}

// Draw returns a value in [0, n) (n > 0) or a raw 64-bit value (n == 0).
func (st *Stream) Draw(n uint64, label string) uint64 {
	st.draws++
	if st.draws > 20_000_000 {
		panic("verifsim: choice stream " + st.Name + " runaway (more than 2e7 draws): generator loop does not terminate")
	}
	var v uint64
	if st.replayM {
		if st.pos < len(st.replay) {
			e := st.replay[st.pos]
			st.pos++
			v = e.V
			if st.strict {
				if e.L != label || e.N != n || (n > 0 && v >= n) {
					if st.Invalid == "" {
						st.Invalid = fmt.Sprintf("stream %s pos %d: recorded (%s,%d,%d) requested (%s,%d)", st.Name, st.pos-1, e.L, e.N, e.V, label, n)
					}
					if n > 0 {
						v %= n
					}
				}
			} else if n > 0 && v >= n {
				v %= n
			}
		} else {
			v = 0
		}
	} else {
		r := st.next()
		if n == 0 {
			v = r
		} else {
			// multiply-shift; bias is irrelevant here and this is
			// cheaper and simpler to reason about than rejection.
			hi, _ := mul64(r, n)
			v = hi
		}
	}
	if !st.NoRecord {
		st.Rec = append(st.Rec, Entry{label, n, v})
	}
	return v
}

func mul64(a, b uint64) (hi, lo uint64) {
	const mask32 = 1<<32 - 1
	a0, a1 := a&mask32, a>>32
	b0, b1 := b&mask32, b>>32
	w0 := a0 * b0
	t := a1*b0 + w0>>32
	w1 := t & mask32
	w2 := t >> 32
	w1 += a0 * b1
	hi = a1*b1 + w2 + w1>>32
	lo = a * b
	return
}

// Force is Draw with the value dictated by the caller when generating (used
// by enumerated blocks); when replaying it behaves exactly like Draw, so that a
// shrunk trace may move away from the dictated value.
func (st *Stream) Force(n uint64, label string, v uint64) uint64 {
	if st.replayM {
		return st.Draw(n, label)
	}
	st.next()
	if n > 0 {
		v %= n
	}
	if !st.NoRecord {
		st.Rec = append(st.Rec, Entry{label, n, v})
	}
	return v
}

// Intn is Draw as int.
func (st *Stream) Intn(n int, label string) int {
	if n <= 0 {
		return 0
	}
	return int(st.Draw(uint64(n), label))
}

// Bool draws true with probability num/den.
func (st *Stream) Bool(num, den int, label string) bool {
	return st.Intn(den, label) < num
}

// Exhausted reports whether a replay stream has been read past its end.
func (st *Stream) Exhausted() bool { return st.replayM && st.pos >= len(st.replay) }

// Source hands out the streams of one run.
type Source struct {
	Seed    uint64
	replay  Trace
	isRep   bool
	strict  bool
	streams []*Stream
}

// NewSource creates a generating source for one run.
func NewSource(seed uint64) *Source { return &Source{Seed: seed} }

// NewReplaySource creates a source that replays tr.
func NewReplaySource(seed uint64, tr Trace, strict bool) *Source {
	return &Source{Seed: seed, replay: tr, isRep: true, strict: strict}
}

// Stream returns the stream with the given name, creating it on first use.
// Must be called from one goroutine at a time (the harness calls it before
// tasks start).
func (src *Source) Stream(name string) *Stream {
	for _, s := range src.streams {
		if s.Name == name {
			return s
		}
	}
	var s *Stream
	if src.isRep {
		s = NewReplayStream(name, src.replay[name], src.strict)
	} else {
		s = NewStream(src.Seed, name)
	}
	src.streams = append(src.streams, s)
	return s
}

// Trace collects what every stream recorded.
func (src *Source) Trace() Trace {
	tr := Trace{}
	for _, s := range src.streams {
		if len(s.Rec) > 0 {
			tr[s.Name] = s.Rec
		}
	}
	return tr
}

// Invalid returns the first strict-replay mismatch, or "".
func (src *Source) Invalid() string {
	for _, s := range src.streams {
		if s.Invalid != "" {
			return s.Invalid
		}
	}
	return ""
}
