package verifsim

// SwarmPlan is the seeded scheduling policy. Its style is drawn once per run
// (swarm testing): some runs never preempt, some preempt a bounded number of
// times at log-uniform gaps, some switch at (almost) every yield of a window,
// and some stall one task mid-operation until every other task has finished.
type SwarmPlan struct {
	Mode     int // 0 none, 1 sparse, 2 dense, 3 stall, 4 sweep (park-and-sweep)
	Budget   int // preemptions left (sparse), switches left (dense)
	GapLog   int // gaps are log-uniform in [1, 2^GapLog]
	Stalled  int // task parked until all others are done (-1: none yet)
	StallGap int64
	first    bool
	// sweep mode (race build): the "parked" task advances in slices of
	// SliceGap yields; between slices every other task runs a whole
	// operation (to its next operation boundary, signalled by OpBoundary).
	Parked   int
	SliceGap int64
	turn     int
}

// Plan modes.
const (
	PlanNone = iota
	PlanSparse
	PlanDense
	PlanStall
	PlanSweep
)

// NewSwarmPlan draws a plan style. weights gives the relative odds of the
// five modes; gapLog bounds the preemption gaps.
func NewSwarmPlan(s *Stream, weights [5]int, gapLog int) *SwarmPlan {
	tot := 0
	for _, w := range weights {
		tot += w
	}
	p := &SwarmPlan{GapLog: gapLog, Stalled: -1, Parked: -1, first: true}
	c := s.Intn(tot, "plan/mode")
	for m, w := range weights {
		if c < w {
			p.Mode = m
			break
		}
		c -= w
	}
	switch p.Mode {
	case PlanSparse:
		p.Budget = 1 + s.Intn(12, "plan/budget")
	case PlanDense:
		p.Budget = 50 + s.Intn(2000, "plan/dense")
	case PlanStall:
		p.Budget = 1 + s.Intn(4, "plan/budget")
	case PlanSweep:
		p.SliceGap = int64(1 + s.Intn(1<<uint(gapLog), "plan/slice"))
	}
	return p
}

func (p *SwarmPlan) logGap(s *Stream) int64 {
	e := uint(s.Intn(p.GapLog+1, "sched/gaplog"))
	return int64(1)<<e + int64(s.Intn(1<<e, "sched/gap"))
}

// Next implements Plan.
func (p *SwarmPlan) Next(s *Sim, runnable []int) (int, int64) {
	st := s.Sched
	pick := func(cands []int) int {
		if len(cands) == 1 {
			return 0
		}
		return st.Intn(len(cands), "sched/next")
	}
	switch p.Mode {
	case PlanNone:
		return pick(runnable), Never
	case PlanSparse:
		i := pick(runnable)
		if p.Budget > 0 {
			p.Budget--
			return i, p.logGap(st)
		}
		return i, Never
	case PlanDense:
		i := pick(runnable)
		if p.Budget > 0 {
			p.Budget--
			return i, int64(1 + st.Intn(3, "sched/gap"))
		}
		return i, Never
	case PlanStall:
		if p.Stalled < 0 {
			// first decision: choose the task to stall and where
			i := pick(runnable)
			p.Stalled = runnable[i]
			return i, p.logGap(st)
		}
		// everyone else first
		var others []int
		for j, id := range runnable {
			if id != p.Stalled {
				others = append(others, j)
			}
		}
		if len(others) == 0 {
			return 0, Never
		}
		j := others[pick(others)]
		if p.Budget > 0 {
			p.Budget--
			return j, p.logGap(st)
		}
		return j, Never
	case PlanSweep:
		if p.Parked < 0 {
			i := pick(runnable)
			p.Parked = runnable[i]
			p.turn = 1
			return i, p.SliceGap
		}
		parkedIdx := -1
		var others []int
		for j, id := range runnable {
			if id == p.Parked {
				parkedIdx = j
			} else {
				others = append(others, j)
			}
		}
		if parkedIdx < 0 {
			// parked task finished: park another one
			i := pick(runnable)
			p.Parked = runnable[i]
			p.turn = 1
			return i, p.SliceGap
		}
		if len(others) == 0 {
			return parkedIdx, Never
		}
		if p.turn > 0 {
			// let every other task run one whole operation
			j := others[(p.turn-1)%len(others)]
			p.turn++
			if p.turn > len(others) {
				p.turn = 0
			}
			return j, -int64(1) // negative: run to next operation boundary
		}
		p.turn = 1
		return parkedIdx, p.SliceGap
	}
	return 0, Never
}
