package verifsim

import "sync"

// Deterministic stand-in for sync.Pool under simulation. The real sync.Pool
// keeps per-P caches and is emptied by the garbage collector: which object a
// Get returns depends on runtime state no seed controls, so a failure that
// involves a pooled object would not replay. The instrumenter rewrites
// p.Get() / p.Put(x) on a sync.Pool into PoolGet(&p) / PoolPut(&p, x): one
// LIFO per pool, shared by all tasks (so an object put back by one task is
// handed to the next taker — the interesting case), guarded by a mutex, which
// also gives the race detector the same Put-happens-before-Get edge the real
// pool has.

var pools struct {
	mu sync.Mutex
	m  map[*sync.Pool][]interface{}
}

// PoolGet replaces (*sync.Pool).Get.
func PoolGet(p *sync.Pool) interface{} {
	if getCur() == nil && !poolSimAlways {
		return p.Get()
	}
	pools.mu.Lock()
	st := pools.m[p]
	var x interface{}
	if n := len(st); n > 0 {
		x = st[n-1]
		st[n-1] = nil
		pools.m[p] = st[:n-1]
	}
	pools.mu.Unlock()
	if x == nil && p.New != nil {
		x = p.New()
	}
	return x
}

// PoolPut replaces (*sync.Pool).Put.
func PoolPut(p *sync.Pool, x interface{}) {
	if getCur() == nil && !poolSimAlways {
		p.Put(x)
		return
	}
	if x == nil {
		return
	}
	pools.mu.Lock()
	if pools.m == nil {
		pools.m = make(map[*sync.Pool][]interface{})
	}
	if len(pools.m[p]) < 64 {
		pools.m[p] = append(pools.m[p], x)
	}
	pools.mu.Unlock()
}

// PoolReset empties every simulated pool (between runs, so that one run's
// leftovers cannot influence the next: a run is a function of its seed).
func PoolReset() {
	pools.mu.Lock()
	pools.m = nil
	pools.mu.Unlock()
}

// poolSimAlways makes the deterministic pool serve calls made outside a
// simulated task as well (reference computations on the main goroutine).
var poolSimAlways = true
