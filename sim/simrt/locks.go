package verifsim

import "sync"

type tryLocker interface {
	TryLock() bool
	Lock()
}

type tryRLocker interface {
	TryRLock() bool
	RLock()
}

// forceYield hands the baton to the scheduler regardless of the countdown.
//
//go:norace
func forceYield(site int) {
	t := cur
	if t == nil || t.nopreempt > 0 {
		return
	}
	t.steps++
	t.site = site
	t.gap = 0
	t.blocked = true
	t.handOver()
	t.blocked = false
}

// Lock replaces x.Lock() in instrumented code: a parked task may hold the
// lock, so block by yielding instead of by sleeping on the mutex.
func Lock(l tryLocker) {
	if getCur() == nil {
		l.Lock()
		return
	}
	for spins := 0; !l.TryLock(); spins++ {
		if spins > 1<<20 {
			panic("verifsim: lock never released (deadlock in library under simulation)")
		}
		forceYield(-2)
	}
}

// RLock replaces x.RLock().
func RLock(l tryRLocker) {
	if getCur() == nil {
		l.RLock()
		return
	}
	for spins := 0; !l.TryRLock(); spins++ {
		if spins > 1<<20 {
			panic("verifsim: rlock never released (deadlock in library under simulation)")
		}
		forceYield(-2)
	}
}

// OnceDo replaces once.Do(f): the body runs without preemption so that no
// other task can block inside the Once while this one is parked.
func OnceDo(o *sync.Once, f func()) {
	t := getCur()
	if t == nil {
		o.Do(f)
		return
	}
	noPreempt(t, 1)
	defer noPreempt(t, -1)
	o.Do(f)
}

//go:norace
func noPreempt(t *Task, d int) { t.nopreempt += d }
