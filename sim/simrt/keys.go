package verifsim

import (
	"math"
	"reflect"
	"sort"
	"sync"
	"unsafe"
)

// Tag gives a pointer map key a per-task serial number at the moment it is
// stored into a map (the instrumenter inserts the call before every store into
// a pointer-keyed map). The serial defines the canonical order of pointer
// keys: order of first insertion. The tagged object is kept alive until the
// task's ResetTags, so an address is never reused for another key meanwhile.
func Tag(key interface{}) {
	t := getCur()
	if t == nil {
		return
	}
	if degradedOn {
		degradedMu.Lock()
		defer degradedMu.Unlock()
	}
	rv := reflect.ValueOf(key)
	if rv.Kind() != reflect.Ptr || rv.IsNil() {
		return
	}
	p := unsafe.Pointer(rv.Pointer())
	if t.tags == nil {
		t.tags = make(map[unsafe.Pointer]uint64)
	}
	if _, ok := t.tags[p]; !ok {
		t.nextTag++
		t.tags[p] = t.nextTag
	}
}

// Degraded mode: the library runs code on goroutines the scheduler does not own
// (goroutines it starts itself, finalizers). Those goroutines reach Tag and
// Keys while the current task may be in them too, so the per-task bookkeeping
// is serialised. (Only then: a mutex here would give the race detector
// happens-before edges between tasks that the library did not ask for.)
var (
	degradedOn bool
	degradedMu sync.Mutex
)

// SetDegraded switches the serialisation on; call before any task starts.
func SetDegraded(on bool) { degradedOn = on }

// sortKey flattens a map key into a list of uint64 that compares
// lexicographically in the canonical order.
func flatten(t *Task, v reflect.Value, out []uint64) []uint64 {
	switch v.Kind() {
	case reflect.Int, reflect.Int8, reflect.Int16, reflect.Int32, reflect.Int64:
		return append(out, uint64(v.Int())^(1<<63))
	case reflect.Uint, reflect.Uint8, reflect.Uint16, reflect.Uint32, reflect.Uint64, reflect.Uintptr:
		return append(out, v.Uint())
	case reflect.Bool:
		if v.Bool() {
			return append(out, 1)
		}
		return append(out, 0)
	case reflect.Float32, reflect.Float64:
		b := math.Float64bits(v.Float())
		if b>>63 != 0 {
			b = ^b
		} else {
			b |= 1 << 63
		}
		return append(out, b)
	case reflect.String:
		s := v.String()
		// length-prefixed chunks of 8 bytes, big-endian: lexicographic on
		// bytes, then on length.
		for i := 0; i < len(s); i += 8 {
			var w uint64
			for j := 0; j < 8; j++ {
				w <<= 8
				if i+j < len(s) {
					w |= uint64(s[i+j])
				}
			}
			out = append(out, w)
		}
		return append(out, uint64(len(s)))
	case reflect.Array:
		for i := 0; i < v.Len(); i++ {
			out = flatten(t, v.Index(i), out)
		}
		return out
	case reflect.Struct:
		for i := 0; i < v.NumField(); i++ {
			out = flatten(t, v.Field(i), out)
		}
		return out
	case reflect.Ptr, reflect.UnsafePointer:
		if v.IsNil() {
			return append(out, 0)
		}
		p := unsafe.Pointer(v.Pointer())
		if t != nil {
			if tag, ok := t.tags[p]; ok {
				return append(out, tag)
			}
			t.Untagged++
		}
		// Not tagged: order is outside the seam's control for this key.
		return append(out, math.MaxUint64)
	case reflect.Interface:
		if v.IsNil() {
			return append(out, 0)
		}
		e := v.Elem()
		out = append(out, HashString(e.Type().String()))
		return flatten(t, e, out)
	}
	panic("verifsim: cannot order map key of kind " + v.Kind().String())
}

type keySorter struct {
	keys []reflect.Value
	flat [][]uint64
}

func (k *keySorter) Len() int { return len(k.keys) }
func (k *keySorter) Swap(i, j int) {
	k.keys[i], k.keys[j] = k.keys[j], k.keys[i]
	k.flat[i], k.flat[j] = k.flat[j], k.flat[i]
}
func (k *keySorter) Less(i, j int) bool {
	a, b := k.flat[i], k.flat[j]
	for x := 0; x < len(a) && x < len(b); x++ {
		if a[x] != b[x] {
			return a[x] < b[x]
		}
	}
	return len(a) < len(b)
}

// Keys returns the keys of map m as a slice ([]K as interface{}) in the order
// chosen for this range invocation. The instrumenter rewrites every
// range-over-map in the library to range over this slice instead.
func Keys(site int, m interface{}) interface{} {
	if degradedOn {
		degradedMu.Lock()
		defer degradedMu.Unlock()
	}
	t := getCur()
	rv := reflect.ValueOf(m)
	keys := rv.MapKeys()
	n := len(keys)
	ks := &keySorter{keys: keys, flat: make([][]uint64, n)}
	buf := make([]uint64, 0, n*4)
	for i, k := range keys {
		start := len(buf)
		buf = flatten(t, k, buf)
		ks.flat[i] = buf[start:len(buf):len(buf)]
	}
	sort.Sort(ks)
	if t != nil {
		t.RangeCalls++
		p := t.Policy
		w := p.Canon + p.Rev + p.Rot + p.Perm
		if w > 0 && n > 1 && t.Stream != nil {
			c := t.Stream.Intn(w, "map/mode")
			switch {
			case c < p.Canon:
			case c < p.Canon+p.Rev:
				for i, j := 0, n-1; i < j; i, j = i+1, j-1 {
					keys[i], keys[j] = keys[j], keys[i]
				}
				t.noteNonCanon(site)
			case c < p.Canon+p.Rev+p.Rot:
				r := t.Stream.Intn(n, "map/rot")
				if r != 0 {
					rot := make([]reflect.Value, n)
					for i := range keys {
						rot[i] = keys[(i+r)%n]
					}
					copy(keys, rot)
					t.noteNonCanon(site)
				}
			default:
				moved := false
				if n <= 16 {
					for i := 0; i < n-1; i++ {
						j := i + t.Stream.Intn(n-i, "map/perm")
						if j != i {
							keys[i], keys[j] = keys[j], keys[i]
							moved = true
						}
					}
				} else {
					seed := t.Stream.Draw(0, "map/permseed")
					if seed != 0 {
						x := seed
						for i := 0; i < n-1; i++ {
							hi, _ := mul64(splitmix(&x), uint64(n-i))
							j := i + int(hi)
							if j != i {
								keys[i], keys[j] = keys[j], keys[i]
								moved = true
							}
						}
					}
				}
				if moved {
					t.noteNonCanon(site)
				}
			}
		}
	}
	out := reflect.MakeSlice(reflect.SliceOf(rv.Type().Key()), n, n)
	for i, k := range keys {
		out.Index(i).Set(k)
	}
	return out.Interface()
}

func (t *Task) noteNonCanon(site int) {
	t.NonCanon++
	if t.SiteNonCan == nil {
		t.SiteNonCan = make(map[int]int64)
	}
	t.SiteNonCan[site]++
}
