package verifsim

import (
	"fmt"
	"runtime"
	"sync"
	"time"
	"unsafe"
)

// The baton: exactly one goroutine (the scheduler or one task) runs at any
// instant; all others are blocked in a raw read(2) on their private pipe.
// The hand-off is done with raw system calls inside //go:norace functions so
// that the race detector sees NO happens-before edge between tasks: the
// execution is strictly sequential and decided by the seed, yet conflicting
// accesses by different tasks are still reported as races.

// StepBudgetExceeded is the panic value raised by Yield when a task passes
// more yield points than its budget allows: the replayable stand-in for
// "does not terminate".
type StepBudgetExceeded struct{ Steps int64 }

func (e StepBudgetExceeded) Error() string {
	return "verifsim: step budget exceeded"
}

const never = int64(1) << 62

// MapPolicy gives the weights with which a task chooses the iteration order
// of each map range it executes: canonical, reversed, rotated, permuted.
// All zero means always canonical (and no draw is made).
type MapPolicy struct{ Canon, Rev, Rot, Perm int }

// Task is one simulated caller goroutine.
type Task struct {
	ID     int
	Stream *Stream
	Policy MapPolicy
	Data   interface{} // harness-owned

	fn            func(*Task)
	sim           *Sim
	bat           baton
	steps         int64 // yield points passed (logical clock)
	limit         int64 // panic when steps exceeds this
	gap           int64 // yields until the next hand-over to the scheduler
	site          int   // site of the yield that handed over
	done          bool
	nopreempt     int
	nswitch       int64
	untilBoundary bool
	blocked       bool // handed over because a lock was unavailable
	// order-seam bookkeeping (touched only by the owning goroutine)
	tags        map[unsafe.Pointer]uint64
	nextTag     uint64
	Untagged    int64 // pointer keys met without a serial (order not controlled)
	NonCanon    int64 // range invocations given a non-canonical order
	RangeCalls  int64
	SiteNonCan  map[int]int64
	Panic       interface{} // panic that escaped fn (harness bug or fault)
	PanicStack  []byte
	FaultOnPage bool
}

// cur is the task currently holding the baton (nil: scheduler or no
// simulation). Read and written only inside //go:norace functions.
var cur *Task

//go:norace
func getCur() *Task { return cur }

//go:norace
func setCur(t *Task) { cur = t }

// Current returns the running task, or nil outside a simulation.
//
//go:norace
func Current() *Task { return cur }

// Yield is the scheduling point inserted by the instrumenter at every
// function entry and loop head of the library, and called by the harness in
// callbacks and between operations.
//
//go:norace
func Yield(site int) {
	t := cur
	if t == nil {
		return
	}
	t.steps++
	if t.steps > t.limit {
		t.limit = never // raise once
		panic(StepBudgetExceeded{t.steps})
	}
	t.gap--
	if t.gap != 0 {
		return
	}
	if t.nopreempt > 0 {
		t.gap = 1
		return
	}
	t.site = site
	t.handOver()
}

//go:norace
func (t *Task) handOver() {
	t.nswitch++
	s := t.sim
	s.bat.signal()
	t.bat.wait()
}

// Switches returns how many times the task has handed the baton over.
//
//go:norace
func (t *Task) Switches() int64 { return t.nswitch }

// Steps returns the task's logical clock.
//
//go:norace
func (t *Task) Steps() int64 { return t.steps }

// SetBudget allows n more yield points before StepBudgetExceeded is raised.
//
//go:norace
func (t *Task) SetBudget(n int64) { t.limit = t.steps + n }

// ResetTags forgets pointer-key serials (call between operations).
func (t *Task) ResetTags() {
	t.tags = nil
	t.nextTag = 0
}

// Switch is one scheduling decision: task From handed the baton back at
// yield site Site after Steps yields (Site -1: the task finished).
type Switch struct {
	From  int
	Site  int
	Steps int64
}

// Plan decides who runs next and for how long. It runs on the scheduler
// goroutine and may draw from the "sched" stream only.
type Plan interface {
	// Next is given the runnable task ids (ascending) and returns the index
	// into that list and the gap (yields until the next switch; Never for
	// "run to completion").
	Next(s *Sim, runnable []int) (idx int, gap int64)
}

// Never is the gap meaning "do not preempt".
const Never = never

// Sim is one simulated execution.
type Sim struct {
	Sched        *Stream
	Tasks        []*Task
	Plan         Plan
	OnSwitch     func(s *Sim, from *Task) // switch-time invariants, scheduler goroutine
	GCOdds       int                      // force runtime.GC() at a switch with probability 1/GCOdds (0: never)
	GCMax        int64                    // at most this many forced GCs per run
	MaxSwitchLog int

	bat         baton
	Switches    []Switch
	NSwitch     int64
	Forced      int64  // forced GCs
	Hash        uint64 // FNV-1a over (task, site) of every switch: the interleaving
	LastRun     int
	LockDetours int64 // scheduling decisions overridden because the chosen task was waiting for a lock
}

// NewTask registers a task.
func (s *Sim) NewTask(stream *Stream, fn func(*Task)) *Task {
	t := &Task{ID: len(s.Tasks), Stream: stream, fn: fn, limit: never, gap: never, sim: s}
	s.Tasks = append(s.Tasks, t)
	return t
}

//go:norace
func (t *Task) isBlocked() bool { return t.blocked }

//go:norace
func (t *Task) isDone() bool { return t.done }

//go:norace
func (t *Task) setDone() { t.done = true }

//go:norace
func (t *Task) arm(gap int64) { t.gap = gap }

//go:norace
func (t *Task) armBoundary() { t.gap = never; t.untilBoundary = true }

// OpBoundary is called by the harness between two operations of a task's
// script. It is a yield point, and the point where a task that was told to
// "run one whole operation" hands the baton back.
//
//go:norace
func OpBoundary(site int) {
	t := cur
	if t == nil {
		return
	}
	if t.untilBoundary {
		t.untilBoundary = false
		t.steps++
		t.site = site
		t.handOver()
		return
	}
	Yield(site)
}

//go:norace
func (t *Task) lastSite() (int, int64) { return t.site, t.steps }

func (t *Task) main(wg *sync.WaitGroup) {
	defer wg.Done()
	t.bat.wait()
	func() {
		defer func() {
			if r := recover(); r != nil {
				t.Panic = r
				buf := make([]byte, 16<<10)
				t.PanicStack = buf[:runtime.Stack(buf, false)]
			}
		}()
		t.fn(t)
	}()
	t.setDone()
	t.site = -1
	t.sim.bat.signal()
}

// Run executes all tasks to completion under the plan. The caller's
// goroutine is the scheduler.
func (s *Sim) Run() error {
	var err error
	if s.bat, err = newBaton(); err != nil {
		return err
	}
	defer s.bat.close()
	for _, t := range s.Tasks {
		if t.bat, err = newBaton(); err != nil {
			return err
		}
	}
	defer func() {
		for _, t := range s.Tasks {
			t.bat.close()
		}
	}()
	var wg sync.WaitGroup
	for _, t := range s.Tasks {
		wg.Add(1)
		go t.main(&wg)
	}
	s.Hash = 14695981039346656037
	runnable := make([]int, 0, len(s.Tasks))
	for {
		runnable = runnable[:0]
		for _, t := range s.Tasks {
			if !t.isDone() {
				runnable = append(runnable, t.ID)
			}
		}
		if len(runnable) == 0 {
			break
		}
		idx, gap := 0, Never
		if s.Plan != nil {
			idx, gap = s.Plan.Next(s, runnable)
		}
		t := s.Tasks[runnable[idx]]
		if t.isBlocked() {
			// The chosen task is waiting for a lock that a parked task holds:
			// whatever the plan wanted, somebody who is not waiting must run
			// first, or nobody ever makes progress.
			for k := 1; k <= len(runnable); k++ {
				o := s.Tasks[runnable[(idx+k)%len(runnable)]]
				if !o.isBlocked() {
					t = o
					s.LockDetours++
					if gap == Never || gap < 0 {
						gap = 64
					}
					break
				}
			}
		}
		if gap < 0 {
			t.armBoundary()
		} else {
			if gap == 0 {
				gap = 1
			}
			t.arm(gap)
		}
		s.LastRun = t.ID
		setCur(t)
		t.bat.signal()
		s.bat.wait()
		setCur(nil)
		site, steps := t.lastSite()
		s.NSwitch++
		s.Hash = (s.Hash ^ uint64(t.ID+1)) * 1099511628211
		s.Hash = (s.Hash ^ uint64(site+2)) * 1099511628211
		if s.MaxSwitchLog == 0 || len(s.Switches) < s.MaxSwitchLog {
			s.Switches = append(s.Switches, Switch{t.ID, site, steps})
		}
		if s.GCOdds > 0 && s.Forced < s.GCMax && s.Sched.Intn(s.GCOdds, "gc") == 0 {
			gcAndFinalizers()
			s.Forced++
		}
		if s.OnSwitch != nil {
			s.OnSwitch(s, t)
		}
	}
	wg.Wait()
	for _, t := range s.Tasks {
		if t.Panic != nil {
			return fmt.Errorf("task %d panicked outside an operation: %v\n%s", t.ID, t.Panic, t.PanicStack)
		}
	}
	return nil
}

// gcAndFinalizers forces a collection and then waits until the finalizers it
// queued have run: a sentinel's finalizer is queued by a second collection,
// behind them (the runtime runs finalizers in queue order on one goroutine).
// The timeout is only a safety net.
func gcAndFinalizers() {
	runtime.GC()
	done := make(chan struct{})
	type sentinel struct{ p *int }
	s := &sentinel{new(int)}
	runtime.SetFinalizer(s, func(*sentinel) { close(done) })
	s = nil
	runtime.GC()
	select {
	case <-done:
	case <-time.After(50 * time.Millisecond):
	}
}

// CollectNow is gcAndFinalizers for the harness (between runs).
func CollectNow() { gcAndFinalizers() }

// Solo runs fn on the calling goroutine as a single task with a step budget
// and canonical map order: used for reference results and for single-task
// engines (C08) that want the logical clock without a scheduler.
func Solo(budget int64, fn func()) (steps int64, exceeded bool, panicked interface{}, stack []byte) {
	t := &Task{ID: -1, limit: budget, gap: never}
	if budget <= 0 {
		t.limit = never
	}
	prev := getCur()
	setCur(t)
	defer setCur(prev)
	func() {
		defer func() {
			if r := recover(); r != nil {
				if _, ok := r.(StepBudgetExceeded); ok {
					exceeded = true
					return
				}
				panicked = r
				buf := make([]byte, 16<<10)
				stack = buf[:runtime.Stack(buf, false)]
			}
		}()
		fn()
	}()
	return t.steps, exceeded, panicked, stack
}
