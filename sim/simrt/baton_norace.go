//go:build !race
// +build !race

package verifsim

// Plain build: nothing observes happens-before edges, so the baton is a
// buffered channel (same hand-off order, a fraction of the cost of a pipe).

type baton struct{ c chan struct{} }

func newBaton() (baton, error) { return baton{make(chan struct{}, 1)}, nil }

func (b baton) close() {}

func (b baton) signal() { b.c <- struct{}{} }

func (b baton) wait() { <-b.c }
