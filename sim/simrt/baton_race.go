//go:build race
// +build race

package verifsim

import (
	"syscall"
	"unsafe"
)

// Race build: the hand-off must be invisible to the race detector, so it is a
// pipe driven by raw system calls (see sched.go).

type baton struct{ r, w int }

func newBaton() (baton, error) {
	var p [2]int
	if err := syscall.Pipe2(p[:], syscall.O_CLOEXEC); err != nil {
		return baton{}, err
	}
	return baton{p[0], p[1]}, nil
}

func (b baton) close() {
	syscall.Close(b.r)
	syscall.Close(b.w)
}

//go:norace
func (b baton) signal() {
	var c [1]byte
	for {
		n, _, e := syscall.Syscall(syscall.SYS_WRITE, uintptr(b.w), uintptr(unsafe.Pointer(&c[0])), 1)
		if e == syscall.EINTR || e == syscall.EAGAIN {
			continue
		}
		if e != 0 || n != 1 {
			panic("verifsim: baton write failed: " + e.Error())
		}
		return
	}
}

//go:norace
func (b baton) wait() {
	var c [1]byte
	for {
		n, _, e := syscall.Syscall(syscall.SYS_READ, uintptr(b.r), uintptr(unsafe.Pointer(&c[0])), 1)
		if e == syscall.EINTR || e == syscall.EAGAIN {
			continue
		}
		if e != 0 || n != 1 {
			panic("verifsim: baton read failed: " + e.Error())
		}
		return
	}
}
