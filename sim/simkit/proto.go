// Package simkit is the harness half of the simulator: supervisor and
// sacrificial worker processes, trace shrinking, known-findings matching and
// evidence writing. Engines (cmd/c08, cmd/c10, cmd/c11) plug into it.
package simkit

import (
	vs "github.com/peterstace/simplefeatures/verifsim"
)

// Violation is one oracle failure.
type Violation struct {
	Class  string `json:"class"`  // e.g. called-after-abort
	Sig    string `json:"sig"`    // class + operation + clause/frame: what known_findings matches on
	Detail string `json:"detail"` // human readable
	// Payload, if set, is an engine-specific self-contained reproducer (C08:
	// decoder id + input bytes); replay then uses it instead of a trace.
	Payload []byte `json:"payload,omitempty"`
	// Statistical marks a violation whose recurrence depends on a random
	// source outside the simulator (the real runtime's map order inside the
	// un-instrumented reference process): it is confirmed and replayed by
	// re-executing the run from its seed several times.
	Statistical bool `json:"statistical,omitempty"`
}

// RunResult is what one simulated run reports.
type RunResult struct {
	Violations []Violation      `json:"violations,omitempty"`
	Stats      map[string]int64 `json:"stats,omitempty"`  // summed over runs
	Max        map[string]int64 `json:"max,omitempty"`    // max over runs
	Tuples     []string         `json:"tuples,omitempty"` // distinct non-trivial scenario keys
	Hashes     []uint64         `json:"hashes,omitempty"` // interleaving hashes
	Sample     interface{}      `json:"sample,omitempty"` // decoded scenario
	Invalid    string           `json:"invalid,omitempty"`
}

// Engine is one property's simulation.
type Engine interface {
	ID() string
	// Run executes one run. pins force named draws (used by the enumerated
	// blocks of the thorough tiers).
	Run(src *vs.Source, tier string, idx int64) *RunResult
	// Plan returns the number of runs for a tier.
	Plan(tier string) int64
	// Describe fills static evidence fields.
	Describe() Description
}

// Description is the static part of the evidence.
type Description struct {
	Level       string
	Rule        string
	Assumptions []string
	Real        []string
	Simulated   []string
	Stubbed     []string
	Extra       map[string]interface{}
}

// Request is sent supervisor -> worker, one JSON object per line.
type Request struct {
	Kind      string   `json:"kind"` // batch | replay | quit
	Tier      string   `json:"tier"`
	BatchSeed uint64   `json:"batch_seed"`
	Start     int64    `json:"start"`
	End       int64    `json:"end"`
	Idx       int64    `json:"idx"`
	Seed      uint64   `json:"seed"`
	Trace     vs.Trace `json:"trace,omitempty"`
	Strict    bool     `json:"strict"`
	WantTrace bool     `json:"want_trace"`
	Payload   []byte   `json:"payload,omitempty"`
}

// Found is a violating run inside a batch.
type Found struct {
	Idx    int64       `json:"idx"`
	Seed   uint64      `json:"seed"`
	V      []Violation `json:"v"`
	Trace  vs.Trace    `json:"trace"`
	Sample interface{} `json:"sample"`
}

// Response is sent worker -> supervisor.
type Response struct {
	Kind    string           `json:"kind"` // batch | replay | progress
	Idx     int64            `json:"idx"`
	Runs    int64            `json:"runs"`
	Stats   map[string]int64 `json:"stats,omitempty"`
	Max     map[string]int64 `json:"max,omitempty"`
	Tuples  []string         `json:"tuples,omitempty"`
	Hashes  []uint64         `json:"hashes,omitempty"`
	Found   []Found          `json:"found,omitempty"`
	Samples []interface{}    `json:"samples,omitempty"`
	Result  *RunResult       `json:"result,omitempty"`
	Trace   vs.Trace         `json:"trace,omitempty"`
	Invalid string           `json:"invalid,omitempty"`
}

// RunSeed derives the seed of run idx of a batch.
func RunSeed(batchSeed uint64, engine string, idx int64) uint64 {
	return vs.Mix(batchSeed, vs.HashString(engine), uint64(idx))
}
