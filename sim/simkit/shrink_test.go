package simkit

import (
	"testing"
	"time"

	vs "github.com/peterstace/simplefeatures/verifsim"
)

// toy system: violation iff main draws contain a value >= 5 at some position; canonical trace = same draws re-recorded.
func TestShrinkToy(t *testing.T) {
	run := func(src *vs.Source) bool {
		m := src.Stream("main")
		n := m.Intn(10, "n")
		bad := false
		for i := 0; i < n; i++ {
			if m.Intn(100, "v") >= 50 {
				bad = true
			}
		}
		return bad
	}
	var tr vs.Trace
	for seed := uint64(1); ; seed++ {
		src := vs.NewSource(seed)
		if run(src) {
			tr = src.Trace()
			break
		}
	}
	out := Shrink(tr, func(c vs.Trace) (bool, vs.Trace) {
		src := vs.NewReplaySource(0, c, false)
		ok := run(src)
		return ok, src.Trace()
	}, time.Now().Add(5*time.Second))
	t.Logf("from %v to %v", tr, out)
	if len(out["main"]) != 2 || out["main"][0].V != 1 || out["main"][1].V != 50 {
		t.Fatalf("not minimal: %v", out)
	}
}
