package simkit

import (
	"bufio"
	"bytes"
	"crypto/sha256"
	"encoding/hex"
	"encoding/json"
	"errors"
	"flag"
	"fmt"
	"io"
	"os"
	"os/exec"
	"path/filepath"
	"sort"
	"strconv"
	"strings"
	"sync"
	"sync/atomic"
	"time"

	vs "github.com/peterstace/simplefeatures/verifsim"
)

// Options configure one supervised check.
type Options struct {
	Tier          string
	Seed          uint64
	Workers       int
	Evidence      string
	Findings      string
	ReplayDir     string
	Scratch       string
	TreeHash      string
	Runs          int64 // override plan
	WorkerEnv     []string
	NoShrink      bool
	chunk         int64
	freshPerChunk bool
	chunkHistory  [][]int64
}

// DeathClassifier lets an engine turn a dead worker into a violation.
type DeathClassifier interface {
	ClassifyDeath(stderr string, exitCode int, payload []byte) Violation
}

// PayloadRunner lets an engine replay an engine-specific payload (C08: one
// decoder call on one input) instead of a choice trace.
type PayloadRunner interface {
	RunPayload(payload []byte) *RunResult
	ShrinkPayload(payload []byte, test func([]byte) bool, deadline time.Time) []byte
}

// StatisticalReplayer is implemented by an engine that may have to run with a
// nondeterminism source outside the simulator's control (C10 in degraded mode:
// the library itself starts goroutines). Then a violation that does not replay
// strictly is re-executed up to 20 times in fresh processes and reported if it
// recurs at least once, with the count written into the replay file.
type StatisticalReplayer interface {
	StatisticalReplay() bool
}

// FreshPerChunk is implemented by an engine that wants every chunk of runs
// executed by a new worker process.
type FreshPerChunk interface {
	FreshWorkerPerChunk() bool
}

// EvidenceExtra lets an engine add measured fields derived from the merged
// statistics.
type EvidenceExtra interface {
	Finish(stats, max map[string]int64, cov map[string]interface{})
}

type proc struct {
	cmd      *exec.Cmd
	in       io.WriteCloser
	enc      *json.Encoder
	dec      *json.Decoder
	stderr   *tailBuf
	inflight *Inflight
	ifPath   string
	done     chan struct{}
	exit     int
}

type tailBuf struct {
	mu  sync.Mutex
	buf []byte
}

func (t *tailBuf) Write(p []byte) (int, error) {
	t.mu.Lock()
	t.buf = append(t.buf, p...)
	if len(t.buf) > 256<<10 {
		t.buf = t.buf[len(t.buf)-128<<10:]
	}
	t.mu.Unlock()
	return len(p), nil
}

func (t *tailBuf) String() string {
	t.mu.Lock()
	defer t.mu.Unlock()
	return string(t.buf)
}

var procSerial struct {
	sync.Mutex
	n int
}

func startProc(opt *Options) (*proc, error) {
	self, err := os.Executable()
	if err != nil {
		return nil, err
	}
	procSerial.Lock()
	procSerial.n++
	n := procSerial.n
	procSerial.Unlock()
	p := &proc{stderr: &tailBuf{}, done: make(chan struct{})}
	p.ifPath = filepath.Join(opt.Scratch, fmt.Sprintf("inflight-%d-%d", os.Getpid(), n))
	if p.inflight, err = openInflight(p.ifPath, true); err != nil {
		return nil, err
	}
	MarkRunIn(p.inflight, -1)
	p.cmd = exec.Command(self, "worker")
	p.cmd.Env = append(append(os.Environ(), "VERIF_INFLIGHT="+p.ifPath), opt.WorkerEnv...)
	p.cmd.Stderr = p.stderr
	if p.in, err = p.cmd.StdinPipe(); err != nil {
		return nil, err
	}
	out, err := p.cmd.StdoutPipe()
	if err != nil {
		return nil, err
	}
	if err := p.cmd.Start(); err != nil {
		return nil, err
	}
	p.enc = json.NewEncoder(p.in)
	p.dec = json.NewDecoder(bufio.NewReaderSize(out, 1<<20))
	return p, nil
}

// MarkRunIn writes a run index into an inflight area (supervisor side).
func MarkRunIn(in *Inflight, idx int64) {
	for i := 0; i < 8; i++ {
		in.mem[i] = byte(uint64(idx) >> (8 * i))
	}
}

var errWatchdog = errors.New("watchdog: worker silent for too long")

// call sends one request and waits for the response.
func (p *proc) call(req *Request, timeout time.Duration) (*Response, error) {
	if err := p.enc.Encode(req); err != nil {
		return nil, err
	}
	type res struct {
		r   *Response
		err error
	}
	ch := make(chan res, 1)
	go func() {
		var r Response
		err := p.dec.Decode(&r)
		ch <- res{&r, err}
	}()
	// Watchdog on *progress*, not on the whole request: the worker keeps its
	// in-flight marker (run index, and for C08 the input being decoded) up to
	// date; only if neither a response nor any change of the marker is seen
	// for the whole timeout is the worker declared stuck.
	last := time.Now()
	lastIdx, lastPl := p.inflight.read()
	tick := time.NewTicker(5 * time.Second)
	defer tick.Stop()
	for {
		select {
		case r := <-ch:
			if r.err != nil {
				return nil, r.err
			}
			return r.r, nil
		case <-tick.C:
			idx, pl := p.inflight.read()
			if idx != lastIdx || !bytes.Equal(pl, lastPl) {
				lastIdx, lastPl, last = idx, pl, time.Now()
			} else if time.Since(last) > timeout {
				p.cmd.Process.Kill()
				return nil, errWatchdog
			}
		}
	}
}

// reap waits for the process and returns its exit code.
func (p *proc) reap() int {
	p.in.Close()
	err := p.cmd.Wait()
	code := 0
	if err != nil {
		var ee *exec.ExitError
		if errors.As(err, &ee) {
			code = ee.ExitCode()
			if code < 0 {
				code = 128 + 9
			}
		} else {
			code = -1
		}
	}
	os.Remove(p.ifPath)
	return code
}

func (p *proc) stop() {
	p.enc.Encode(&Request{Kind: "quit"})
	p.reap()
}

// Death records a worker that died mid-batch.
type Death struct {
	Idx     int64
	Payload []byte
	Stderr  string
	Exit    int
}

type merged struct {
	runs    int64
	stats   map[string]int64
	max     map[string]int64
	tuples  map[string]struct{}
	hashes  map[uint64]struct{}
	found   []Found
	samples []interface{}
	deaths  []Death
}

func (m *merged) add(r *Response) {
	m.runs += r.Runs
	for k, v := range r.Stats {
		m.stats[k] += v
	}
	for k, v := range r.Max {
		if v > m.max[k] {
			m.max[k] = v
		}
	}
	for _, t := range r.Tuples {
		m.tuples[t] = struct{}{}
	}
	for _, h := range r.Hashes {
		m.hashes[h] = struct{}{}
	}
	m.found = append(m.found, r.Found...)
	if len(m.samples) < 6 {
		m.samples = append(m.samples, r.Samples...)
	}
}

const watchdog = 10 * time.Minute

// Main is the entry point shared by all engine binaries.
func Main(e Engine) {
	if len(os.Args) >= 2 && os.Args[1] == "worker" {
		WorkerMain(e)
		return
	}
	if len(os.Args) >= 2 && os.Args[1] == "replay" {
		os.Exit(replayMain(e, os.Args[2:]))
	}
	if len(os.Args) >= 2 && os.Args[1] == "eventlog" {
		os.Exit(eventLogMain(e, os.Args[2:]))
	}
	fs := flag.NewFlagSet("run", flag.ExitOnError)
	var opt Options
	fs.StringVar(&opt.Tier, "tier", "quick", "quick|thorough")
	seed := fs.String("seed", "1", "batch seed")
	fs.IntVar(&opt.Workers, "workers", 16, "worker processes")
	fs.StringVar(&opt.Evidence, "evidence", "", "evidence file")
	fs.StringVar(&opt.Findings, "findings", "", "known findings file")
	fs.StringVar(&opt.ReplayDir, "replays", "", "replay dir")
	fs.StringVar(&opt.Scratch, "scratch", os.TempDir(), "scratch dir")
	fs.StringVar(&opt.TreeHash, "tree", "", "hash of /repo working tree")
	fs.Int64Var(&opt.Runs, "runs", 0, "override number of runs")
	fs.BoolVar(&opt.NoShrink, "noshrink", false, "skip shrinking")
	args := os.Args[1:]
	if len(args) > 0 && args[0] == "run" {
		args = args[1:]
	}
	fs.Parse(args)
	s, err := strconv.ParseUint(*seed, 10, 64)
	if err != nil {
		// allow negative / arbitrary ints from VERIF_SEED
		si, err2 := strconv.ParseInt(*seed, 10, 64)
		if err2 != nil {
			s = vs.HashString(*seed)
		} else {
			s = uint64(si)
		}
	}
	opt.Seed = s
	os.Exit(Supervise(e, &opt))
}

// Supervise runs a whole tier and returns the process exit code.
func Supervise(e Engine, opt *Options) int {
	t0 := time.Now()
	if opt.Workers < 1 {
		opt.Workers = 1
	}
	total := e.Plan(opt.Tier)
	if opt.Runs > 0 {
		total = opt.Runs
	}
	W := int64(opt.Workers)
	chunk := total / (W * 6)
	if chunk < 1 {
		chunk = 1
	}
	if chunk > 2000 {
		chunk = 2000
	}
	nChunks := (total + chunk - 1) / chunk
	opt.chunk = chunk
	if f, ok := e.(FreshPerChunk); ok {
		opt.freshPerChunk = f.FreshWorkerPerChunk()
	}
	fmt.Printf("verif %s tier=%s VERIF_SEED=%d runs=%d workers=%d chunk=%d\n", e.ID(), opt.Tier, opt.Seed, total, W, chunk)
	results := make([]*merged, nChunks)
	var nextChunk int64
	chunkHistory := make([][]int64, nChunks) // for each chunk: the chunks the same worker process ran before it
	opt.chunkHistory = chunkHistory
	var wg sync.WaitGroup
	var trouble error
	var tmu sync.Mutex
	setTrouble := func(err error) {
		tmu.Lock()
		if trouble == nil {
			trouble = err
		}
		tmu.Unlock()
	}
	for w := int64(0); w < W; w++ {
		wg.Add(1)
		go func(w int64) {
			defer wg.Done()
			var p *proc
			var err error
			defer func() {
				if p != nil {
					p.stop()
				}
			}()
			fpc := false
			if f, ok := e.(FreshPerChunk); ok {
				fpc = f.FreshWorkerPerChunk()
			}
			var mine []int64 // chunks this worker goroutine has executed, in order
			for {
				// chunks are handed out on demand (a static deal left a few
				// workers grinding through the heavy chunks at the end); results
				// are merged by chunk index, so the batch outcome is the same
				c := atomic.AddInt64(&nextChunk, 1) - 1
				if c >= nChunks {
					break
				}
				chunkHistory[c] = append([]int64(nil), mine...)
				mine = append(mine, c)
				if fpc && p != nil {
					p.stop()
					p = nil
				}
				m := &merged{stats: map[string]int64{}, max: map[string]int64{}, tuples: map[string]struct{}{}, hashes: map[uint64]struct{}{}}
				results[c] = m
				start, end := c*chunk, (c+1)*chunk
				if end > total {
					end = total
				}
				// worklist of run ranges; a worker death splits the range around
				// the run that was in flight (recorded, confirmed later)
				type rng struct{ a, b int64 }
				work := []rng{{start, end}}
				for deaths := 0; len(work) > 0; {
					r := work[len(work)-1]
					work = work[:len(work)-1]
					if r.a >= r.b {
						continue
					}
					if p == nil {
						if p, err = startProc(opt); err != nil {
							setTrouble(err)
							return
						}
					}
					resp, err := p.call(&Request{Kind: "batch", Tier: opt.Tier, BatchSeed: opt.Seed, Start: r.a, End: r.b}, watchdog)
					if err == nil {
						m.add(resp)
						continue
					}
					idx, payload := p.inflight.read()
					code := p.reap()
					stderr := p.stderr.String()
					p = nil
					if err == errWatchdog {
						setTrouble(fmt.Errorf("%v (run %d in flight)", err, idx))
						return
					}
					if idx < r.a || idx >= r.b {
						setTrouble(fmt.Errorf("worker died outside a run (inflight=%d, batch %d..%d, exit %d): %s", idx, r.a, r.b, code, tail(stderr, 2000)))
						return
					}
					deaths++
					m.deaths = append(m.deaths, Death{idx, payload, stderr, code})
					if deaths > 64 {
						// plenty of evidence already; do not grind through the rest of the chunk
						for _, w := range work {
							m.stats["runs_skipped_after_many_worker_deaths"] += w.b - w.a
						}
						m.stats["runs_skipped_after_many_worker_deaths"] += r.b - r.a - 1
						work = nil
						break
					}
					work = append(work, rng{idx + 1, r.b}, rng{r.a, idx})
				}
			}
		}(w)
	}
	wg.Wait()
	if trouble != nil {
		// Not fatal yet: the part of the batch that did run may hold confirmed
		// violations, which are worth more than the trouble (a library that hangs
		// a worker usually misbehaves in observable ways elsewhere too). Without
		// any, the exit status is 2.
		fmt.Printf("MACHINERY-TROUBLE %s: %v\n", e.ID(), trouble)
	}
	all := &merged{stats: map[string]int64{}, max: map[string]int64{}, tuples: map[string]struct{}{}, hashes: map[uint64]struct{}{}}
	for _, m := range results {
		if m == nil {
			continue
		}
		all.runs += m.runs
		for k, v := range m.stats {
			all.stats[k] += v
		}
		for k, v := range m.max {
			if v > all.max[k] {
				all.max[k] = v
			}
		}
		for t := range m.tuples {
			all.tuples[t] = struct{}{}
		}
		for h := range m.hashes {
			all.hashes[h] = struct{}{}
		}
		all.found = append(all.found, m.found...)
		if len(all.samples) < 6 {
			all.samples = append(all.samples, m.samples...)
		}
		all.deaths = append(all.deaths, m.deaths...)
	}
	sort.Slice(all.found, func(i, j int) bool { return all.found[i].Idx < all.found[j].Idx })
	sort.Slice(all.deaths, func(i, j int) bool { return all.deaths[i].Idx < all.deaths[j].Idx })

	findings := LoadFindings(opt.Findings, e.ID())
	exit := 0
	nViol := 0
	knownSeen := map[string]bool{}
	reported := map[string]bool{}
	var cases []*violCase
	machinery := false
	for i := range all.found {
		f := &all.found[i]
		for _, v := range f.V {
			vc := &violCase{idx: f.Idx, seed: f.Seed, v: v, trace: f.Trace, sample: f.Sample}
			if _, ok := e.(PayloadRunner); ok && len(v.Payload) > 0 {
				vc.payload = v.Payload
			}
			cases = append(cases, vc)
		}
	}
	for i := range all.deaths {
		d := &all.deaths[i]
		v := Violation{Class: "process-abort", Sig: "process-abort", Detail: tail(d.Stderr, 4000)}
		if dc, ok := e.(DeathClassifier); ok {
			v = dc.ClassifyDeath(d.Stderr, d.Exit, d.Payload)
		}
		if v.Class == "machinery" {
			fmt.Printf("MACHINERY-TROUBLE %s: worker death at run %d classified as harness trouble: %s\n", e.ID(), d.Idx, tail(v.Detail, 3000))
			return 2
		}
		vc := &violCase{idx: d.Idx, seed: RunSeed(opt.Seed, e.ID(), d.Idx), v: v, death: true}
		if _, ok := e.(PayloadRunner); ok && len(v.Payload) > 0 {
			vc.payload = v.Payload
		}
		cases = append(cases, vc)
	}
	for _, c := range cases {
		if c.v.Class == "machinery" {
			if !machinery {
				fmt.Printf("MACHINERY-TROUBLE %s: run %d: %s\n", e.ID(), c.idx, tail(c.v.Detail, 3000))
			}
			machinery = true
			continue
		}
		if fd := findings.Match(c.v.Sig); fd != nil {
			if !knownSeen[fd.Sig] {
				knownSeen[fd.Sig] = true
				fmt.Printf("KNOWN-FINDING: property=%s %s\n", e.ID(), fd.Text)
			}
			all.stats["known_finding_hits"]++
			continue
		}
		if reported[c.v.Sig] {
			all.stats["violations_same_sig"]++
			continue
		}
		if len(reported) >= 3 {
			all.stats["violations_unprocessed"]++
			continue
		}
		reported[c.v.Sig] = true
		path, status := processViolation(e, opt, c)
		switch status {
		case "confirmed":
			nViol++
			exit = 1
			fmt.Printf("violation: %s run=%d seed=%d sig=%s\n%s\n", e.ID(), c.idx, c.seed, c.v.Sig, tail(c.v.Detail, 3000))
			fmt.Printf("VIOLATION property=%s replay=%s\n", e.ID(), path)
		default:
			fmt.Printf("MACHINERY-TROUBLE %s: violation at run %d (sig %s) did not replay (%s); detail: %s\n", e.ID(), c.idx, c.v.Sig, status, tail(c.v.Detail, 2000))
			if exit == 0 {
				exit = 2
			}
		}
	}
	if (machinery || trouble != nil) && exit == 0 {
		// trouble with no confirmed violation: the check itself is at fault
		exit = 2
	}
	wall := time.Since(t0).Seconds()
	if err := writeEvidence(e, opt, all, nViol, wall, knownSeen); err != nil {
		fmt.Printf("MACHINERY-TROUBLE %s: evidence: %v\n", e.ID(), err)
		return 2
	}
	if len(all.deaths) > 0 {
		fmt.Printf("verif %s: %d worker deaths observed\n", e.ID(), len(all.deaths))
	}
	fmt.Printf("verif %s tier=%s done: runs=%d distinct_nontrivial=%d interleavings=%d violations=%d known=%d wall=%.1fs\n",
		e.ID(), opt.Tier, all.runs, len(all.tuples), len(all.hashes), nViol, len(knownSeen), wall)
	return exit
}

var shrinkCalls int

// shrinkBudget gives the first violation 45 s of minimisation and later ones 15 s.
func shrinkBudget() time.Duration {
	shrinkCalls++
	if shrinkCalls == 1 {
		return 45 * time.Second
	}
	return 15 * time.Second
}

func tail(s string, n int) string {
	if len(s) > n {
		return "…" + s[len(s)-n:]
	}
	return s
}

type violCase struct {
	idx       int64
	seed      uint64
	v         Violation
	trace     vs.Trace
	sample    interface{}
	death     bool
	payload   []byte
	batchSeed uint64
}

// ReplayFile is what a VIOLATION line points at.
type ReplayFile struct {
	Property  string      `json:"property"`
	Tier      string      `json:"tier"`
	BatchSeed uint64      `json:"batch_seed"`
	Idx       int64       `json:"run_index"`
	Seed      uint64      `json:"run_seed"`
	TreeHash  string      `json:"repo_tree_hash"`
	Violation Violation   `json:"violation"`
	Death     bool        `json:"worker_died"`
	Trace     vs.Trace    `json:"trace,omitempty"`
	Payload   string      `json:"payload_hex,omitempty"`
	Scenario  interface{} `json:"scenario,omitempty"`
	Shrunk    bool        `json:"minimised"`
	Attempts  int         `json:"shrink_attempts"`
	Note      string      `json:"note,omitempty"`
	// Statistical is set when the simulation ran degraded (the library starts
	// goroutines of its own, which the scheduler does not own): the replay
	// reproduces the violation only with the stated frequency.
	Statistical string `json:"statistical_replay,omitempty"`
	// History, if set: execute these run ranges [from, to) in order in one process; the last one ends with run_index.
	History [][2]int64 `json:"history_run_ranges,omitempty"`
	// ReplayWholeRun: ignore payload_hex and regenerate the run from run_seed.
	ReplayWholeRun bool `json:"replay_whole_run,omitempty"`
}

// replayer runs replay requests, either each in a fresh worker process
// (fresh=true: used for confirmations) or in one persistent worker that is
// restarted when it dies (used while shrinking).
type replayer struct {
	opt   *Options
	fresh bool
	p     *proc
}

func (r *replayer) close() {
	if r.p != nil {
		r.p.stop()
		r.p = nil
	}
}

// do returns the response, or nil plus stderr, exit code and in-flight
// payload if the worker died.
func (r *replayer) do(req *Request) (*Response, string, int, []byte) {
	if r.p == nil {
		p, err := startProc(r.opt)
		if err != nil {
			return nil, err.Error(), -1, nil
		}
		r.p = p
	}
	p := r.p
	resp, err := p.call(req, watchdog)
	if err != nil {
		_, payload := p.inflight.read()
		code := p.reap()
		r.p = nil
		return nil, p.stderr.String(), code, payload
	}
	if r.fresh {
		r.close()
	}
	return resp, "", 0, nil
}

// reproduces reports whether replaying tr shows a violation with signature
// sig; it returns the re-recorded trace and scenario.
func reproduces(e Engine, rp *replayer, c *violCase, tr vs.Trace, strict bool) (bool, vs.Trace, interface{}, string) {
	opt := rp.opt
	req := &Request{Kind: "replay", Tier: opt.Tier, Idx: c.idx, Seed: c.seed, Trace: tr, Strict: strict}
	if c.payload != nil {
		req = &Request{Kind: "payload", Tier: opt.Tier, Idx: c.idx, Payload: c.payload}
	}
	resp, stderr, code, pl := rp.do(req)
	if resp == nil {
		v := Violation{Class: "process-abort", Sig: "process-abort", Detail: tail(stderr, 4000)}
		if dc, ok := e.(DeathClassifier); ok {
			v = dc.ClassifyDeath(stderr, code, pl)
		}
		return v.Sig == c.v.Sig, tr, nil, v.Detail
	}
	if resp.Invalid != "" {
		return false, nil, nil, "invalid trace: " + resp.Invalid
	}
	for _, v := range resp.Result.Violations {
		if v.Sig == c.v.Sig {
			return true, resp.Trace, resp.Result.Sample, v.Detail
		}
	}
	return false, nil, nil, ""
}

// reproducesWithHistory executes, in ONE fresh worker process, the same runs
// in the same order as the worker that found the violation had executed up to
// and including run c.idx, and reports whether run c.idx shows the violation:
// for failures that depend on what the same process executed before (state the
// library carries from call to call).
func reproducesWithHistory(e Engine, opt *Options, c *violCase, ranges [][2]int64) (bool, interface{}, string) {
	rp := &replayer{opt: opt}
	defer rp.close()
	for i, r := range ranges {
		resp, _, _, _ := rp.do(&Request{Kind: "batch", Tier: opt.Tier, BatchSeed: batchSeedOf(opt, c), Start: r[0], End: r[1]})
		if resp == nil {
			return false, nil, ""
		}
		if i < len(ranges)-1 {
			continue
		}
		for _, f := range resp.Found {
			if f.Idx != c.idx {
				continue
			}
			for _, v := range f.V {
				if v.Sig == c.v.Sig {
					return true, f.Sample, v.Detail
				}
			}
		}
	}
	return false, nil, ""
}

// historyOf lists the run ranges the worker that executed run idx had
// executed before it (chunks are dealt round-robin to workers).
func historyOf(opt *Options, idx int64) [][2]int64 {
	if opt.chunk <= 0 {
		return nil
	}
	c := idx / opt.chunk
	if opt.freshPerChunk {
		return [][2]int64{{c * opt.chunk, idx + 1}}
	}
	var out [][2]int64
	if int(c) < len(opt.chunkHistory) {
		for _, k := range opt.chunkHistory[c] {
			out = append(out, [2]int64{k * opt.chunk, (k + 1) * opt.chunk})
		}
	}
	return append(out, [2]int64{c * opt.chunk, idx + 1})
}

func batchSeedOf(opt *Options, c *violCase) uint64 {
	if c.batchSeed != 0 {
		return c.batchSeed
	}
	return opt.Seed
}

func writeReplay(e Engine, opt *Options, c *violCase, rf *ReplayFile) (string, string) {
	b, _ := json.MarshalIndent(rf, "", " ")
	h := sha256.Sum256(b)
	os.MkdirAll(opt.ReplayDir, 0o755)
	path := filepath.Join(opt.ReplayDir, fmt.Sprintf("%s-%d-%s.json", e.ID(), c.seed, hex.EncodeToString(h[:4])))
	if err := os.WriteFile(path, b, 0o644); err != nil {
		return "", "cannot write replay file: " + err.Error()
	}
	return path, "confirmed"
}

func processViolation(e Engine, opt *Options, c *violCase) (string, string) {
	rf := &ReplayFile{Property: e.ID(), Tier: opt.Tier, BatchSeed: opt.Seed, Idx: c.idx, Seed: c.seed, TreeHash: opt.TreeHash, Violation: c.v, Death: c.death}
	tr := c.trace
	fresh := &replayer{opt: opt, fresh: true}
	persistent := &replayer{opt: opt}
	defer persistent.close()
	if c.payload != nil {
		return processPayloadViolation(e, opt, c, rf, fresh, persistent)
	}
	// 1. confirm from the seed alone (trace nil => generate) in a fresh process.
	ok, tr2, sample, detail := reproduces(e, fresh, c, nil, false)
	if !ok && (c.death || c.v.Statistical) {
		// A worker death detected by an external monitor (the race detector
		// keeps four shadow cells per word and evicts at random) may not recur
		// on every execution of the very same schedule: re-execute up to 12
		// times and record the frequency.
		hits, n := 0, 0
		for n = 1; n <= 12; n++ {
			var ok2 bool
			ok2, tr2, sample, detail = reproduces(e, fresh, c, nil, false)
			if ok2 {
				hits++
				if hits >= 2 {
					break
				}
			}
		}
		if hits > 0 {
			ok = true
			if n > 12 {
				n = 12
			}
			rf.Statistical = fmt.Sprintf("%d of %d further fresh-process executions of the same seed reproduced the report (the detector is not deterministic)", hits, n+1)
		}
	}
	if c.v.Class == "cross-process-divergence" && ok {
		// instrumented and un-instrumented builds disagree deterministically, in
		// fresh processes with no history: that points at the instrumentation,
		// not at the library
		return "", "instrumented and un-instrumented builds disagree deterministically in fresh processes (instrumentation suspected): " + tail(detail, 1500)
	}
	if !ok && !c.death && opt.chunk > 0 {
		// not on its own: with the runs the same worker executed before it?
		// (first only the chunk it belongs to, then everything that worker did)
		full := historyOf(opt, c.idx)
		for _, hist := range [][][2]int64{full[len(full)-1:], full} {
			n := int64(0)
			for _, r := range hist {
				n += r[1] - r[0]
			}
			if n <= 1 {
				continue
			}
			hits := 0
			var smp interface{}
			var det string
			for i := 0; i < 2; i++ {
				if ok2, s2, d2 := reproducesWithHistory(e, opt, c, hist); ok2 {
					hits++
					smp, det = s2, d2
				} else {
					break
				}
			}
			if hits == 2 {
				rf.History = hist
				rf.Scenario = smp
				if det != "" {
					rf.Violation.Detail = det
				}
				rf.Note = fmt.Sprintf("history-dependent: run %d alone does not show the violation in a fresh process; executing the %d runs its worker had executed up to it, in one fresh process, does (twice): the library carries state from earlier calls", c.idx, n)
				return writeReplay(e, opt, c, rf)
			}
		}
	}
	if !ok {
		return "", "not reproduced from seed in a fresh process"
	}
	if tr2 != nil {
		tr = tr2
	}
	if detail != "" {
		rf.Violation.Detail = detail
	}
	rf.Scenario = sample
	// 2. shrink the trace (not for deaths without a trace: those are replayed
	// from the seed), then require the result to replay strictly in two fresh
	// processes. Shrinking first uses one persistent worker (fast); if what it
	// produced does not replay in a fresh process — the violation depends on
	// state the library carries from one call to the next inside a process —
	// shrinking is redone with a fresh process per attempt, and failing that
	// the unminimised trace recorded from the seed is kept.
	strictTwice := func(t vs.Trace) (bool, string) {
		for i := 0; i < 2; i++ {
			ok, _, _, why := reproduces(e, fresh, c, t, true)
			if !ok {
				return false, why
			}
		}
		return true, ""
	}
	tr0, sample0, detail0 := tr, sample, rf.Violation.Detail
	shrinkWith := func(rp *replayer, budget time.Duration) vs.Trace {
		deadline := time.Now().Add(budget)
		best, bestSample, bestDetail := tr0, sample0, detail0
		best = Shrink(best, func(cand vs.Trace) (bool, vs.Trace) {
			rf.Attempts++
			ok, canon, smp, det := reproduces(e, rp, c, cand, false)
			if ok && canon != nil {
				bestSample, bestDetail = smp, det
				return true, canon
			}
			return false, nil
		}, deadline)
		rf.Scenario = bestSample
		if bestDetail != "" {
			rf.Violation.Detail = bestDetail
		}
		return best
	}
	if c.v.Statistical {
		// recurrence is a matter of frequency: no trace minimisation; the replay
		// regenerates the run from its seed (several times if need be)
		if rf.Statistical == "" {
			rf.Statistical = "reproduced at the first fresh-process execution of the same seed"
		}
		tr = nil
	}
	if tr != nil {
		done := false
		if !opt.NoShrink {
			tr = shrinkWith(persistent, shrinkBudget())
			if ok, _ := strictTwice(tr); ok {
				rf.Shrunk, done = true, true
			} else {
				tr = shrinkWith(fresh, 30*time.Second)
				if ok, _ := strictTwice(tr); ok {
					rf.Shrunk, done = true, true
					rf.Note = "minimised with a fresh process per attempt: the violation depends on state carried between calls inside one process"
				}
			}
		}
		if !done {
			tr = tr0
			rf.Scenario, rf.Violation.Detail = sample0, detail0
			if ok, why := strictTwice(tr); !ok {
				sr, isSR := e.(StatisticalReplayer)
				if !isSR || !sr.StatisticalReplay() {
					return "", "trace recorded from the seed did not replay strictly: " + why
				}
				hits := 0
				for i := 0; i < 20; i++ {
					if ok, _, _, _ := reproduces(e, fresh, c, tr, true); ok {
						hits++
					}
				}
				if hits == 0 {
					return "", "degraded simulation: violation did not recur in 20 fresh-process replays"
				}
				rf.Statistical = fmt.Sprintf("%d of 20 fresh-process replays reproduced the violation", hits)
			}
			if !opt.NoShrink {
				rf.Note = "not minimised: shrunk candidates did not replay in fresh processes (state carried between calls inside one process); this is the full trace recorded from the seed"
			}
		}
		rf.Trace = tr
	} else {
		if rf.Statistical == "" {
			ok, _, _, _ := reproduces(e, fresh, c, nil, false)
			if !ok {
				return "", "second replay from seed failed"
			}
		}
		rf.Note = "replay regenerates the run from run_seed"
	}
	if c.payload != nil {
		rf.Payload = hex.EncodeToString(c.payload)
	}
	b, _ := json.MarshalIndent(rf, "", " ")
	h := sha256.Sum256(b)
	os.MkdirAll(opt.ReplayDir, 0o755)
	path := filepath.Join(opt.ReplayDir, fmt.Sprintf("%s-%d-%s.json", e.ID(), c.seed, hex.EncodeToString(h[:4])))
	if err := os.WriteFile(path, b, 0o644); err != nil {
		return "", "cannot write replay file: " + err.Error()
	}
	return path, "confirmed"
}

func processPayloadViolation(e Engine, opt *Options, c *violCase, rf *ReplayFile, fresh, persistent *replayer) (string, string) {
	ok, _, sample, detail := reproduces(e, fresh, c, nil, false)
	if !ok {
		// The single (decoder, input) pair does not fail on its own: the failure
		// depends on what the same process decoded before it (state the library
		// keeps between calls). Replay the whole run from its seed instead.
		whole := *c
		whole.payload = nil
		for i := 0; i < 2; i++ {
			if ok, _, _, _ := reproduces(e, fresh, &whole, nil, false); !ok {
				return "", "neither the payload nor the whole run reproduced in a fresh process"
			}
		}
		rf.Note = "history-dependent: the input alone does not fail in a fresh process; the replay regenerates the whole run (all records and faults) from run_seed, which does"
		rf.Payload = hex.EncodeToString(c.payload)
		rf.Violation.Payload = nil
		rf.ReplayWholeRun = true
		b, _ := json.MarshalIndent(rf, "", " ")
		h := sha256.Sum256(b)
		os.MkdirAll(opt.ReplayDir, 0o755)
		path := filepath.Join(opt.ReplayDir, fmt.Sprintf("%s-%d-%s.json", e.ID(), c.seed, hex.EncodeToString(h[:4])))
		if err := os.WriteFile(path, b, 0o644); err != nil {
			return "", "cannot write replay file: " + err.Error()
		}
		return path, "confirmed"
	}
	rf.Scenario = sample
	if detail != "" {
		rf.Violation.Detail = detail
	}
	if !opt.NoShrink {
		deadline := time.Now().Add(shrinkBudget())
		pr := e.(PayloadRunner)
		rp := persistent
		if c.death {
			rp = fresh // each attempt may kill the worker anyway
		}
		orig := c.payload
		attempts := 0
		best := pr.ShrinkPayload(orig, func(cand []byte) bool {
			attempts++
			cc := *c
			cc.payload = cand
			ok, _, _, _ := reproduces(e, rp, &cc, nil, false)
			return ok
		}, deadline)
		rf.Attempts = attempts
		rf.Shrunk = true
		c.payload = best
	}
	for i := 0; i < 2; i++ {
		ok, _, smp, det := reproduces(e, fresh, c, nil, false)
		if !ok {
			return "", "minimised payload did not reproduce in a fresh process"
		}
		if smp != nil {
			rf.Scenario = smp
		}
		if det != "" {
			rf.Violation.Detail = det
		}
	}
	rf.Payload = hex.EncodeToString(c.payload)
	rf.Violation.Payload = nil
	b, _ := json.MarshalIndent(rf, "", " ")
	h := sha256.Sum256(b)
	os.MkdirAll(opt.ReplayDir, 0o755)
	path := filepath.Join(opt.ReplayDir, fmt.Sprintf("%s-%d-%s.json", e.ID(), c.seed, hex.EncodeToString(h[:4])))
	if err := os.WriteFile(path, b, 0o644); err != nil {
		return "", "cannot write replay file: " + err.Error()
	}
	return path, "confirmed"
}

// replayMain: <bin> replay <file> [-scratch dir]; exit 1 if the violation recurs.
func replayMain(e Engine, args []string) int {
	fs := flag.NewFlagSet("replay", flag.ExitOnError)
	var opt Options
	fs.StringVar(&opt.Scratch, "scratch", os.TempDir(), "scratch dir")
	if len(args) < 1 {
		fmt.Println("usage: replay <file>")
		return 2
	}
	file := args[0]
	fs.Parse(args[1:])
	b, err := os.ReadFile(file)
	if err != nil {
		fmt.Println(err)
		return 2
	}
	var rf ReplayFile
	if err := json.Unmarshal(b, &rf); err != nil {
		fmt.Println(err)
		return 2
	}
	opt.Tier = rf.Tier
	c := &violCase{idx: rf.Idx, seed: rf.Seed, v: rf.Violation, death: rf.Death, batchSeed: rf.BatchSeed}
	if rf.History != nil {
		opt.Seed = rf.BatchSeed
		if ok, _, detail := reproducesWithHistory(e, &opt, c, rf.History); ok {
			fmt.Printf("replayed (run ranges %v in one process): %s\n%s\n", rf.History, rf.Violation.Sig, tail(detail, 4000))
			fmt.Printf("VIOLATION property=%s replay=%s\n", e.ID(), file)
			return 1
		}
		fmt.Printf("replay %s: violation %s did not recur on this tree\n", file, rf.Violation.Sig)
		return 0
	}
	if rf.Payload != "" && !rf.ReplayWholeRun {
		c.payload, _ = hex.DecodeString(rf.Payload)
	}
	ok, _, _, detail := reproduces(e, &replayer{opt: &opt, fresh: true}, c, rf.Trace, rf.Trace != nil)
	for i := 0; !ok && rf.Statistical != "" && i < 40; i++ {
		ok, _, _, detail = reproduces(e, &replayer{opt: &opt, fresh: true}, c, rf.Trace, rf.Trace != nil)
	}
	if ok {
		fmt.Printf("replayed: %s\n%s\n", rf.Violation.Sig, tail(detail, 4000))
		fmt.Printf("VIOLATION property=%s replay=%s\n", e.ID(), file)
		return 1
	}
	if strings.HasPrefix(detail, "invalid trace") {
		fmt.Printf("replay %s: %s (the trace does not fit this tree)\n", file, detail)
		return 2
	}
	fmt.Printf("replay %s: violation %s did not recur on this tree\n", file, rf.Violation.Sig)
	return 0
}

// eventLogMain: <bin> eventlog -tier t -seed s -from a -to b : prints a
// deterministic digest per run (used by the determinism self-test).
func eventLogMain(e Engine, args []string) int {
	fs := flag.NewFlagSet("eventlog", flag.ExitOnError)
	tier := fs.String("tier", "quick", "")
	seed := fs.Uint64("seed", 1, "")
	from := fs.Int64("from", 0, "")
	to := fs.Int64("to", 40, "")
	fs.Parse(args)
	w := bufio.NewWriter(os.Stdout)
	defer w.Flush()
	for idx := *from; idx < *to; idx++ {
		s := RunSeed(*seed, e.ID(), idx)
		src := vs.NewSource(s)
		r := e.Run(src, *tier, idx)
		tb, _ := json.Marshal(src.Trace())
		// allocation meters read runtime counters that are not a function of
		// the seed; everything else must be.
		for k := range r.Stats {
			if strings.Contains(k, "alloc") {
				delete(r.Stats, k)
			}
		}
		for k := range r.Max {
			if strings.Contains(k, "alloc") {
				delete(r.Max, k)
			}
		}
		rb, _ := json.Marshal(r)
		ht := sha256.Sum256(tb)
		hr := sha256.Sum256(rb)
		fmt.Fprintf(w, "%d %d trace=%s result=%s\n", idx, s, hex.EncodeToString(ht[:8]), hex.EncodeToString(hr[:8]))
	}
	return 0
}

var _ = bytes.NewReader
