package simkit

import (
	"bufio"
	"os"
	"strings"
)

// Finding is one line of known_findings.txt:
//
//	finding: property=<id> sig=<signature> <what fails>
//	fixed: property=<id> <commit> <what failed>
//
// Only "finding:" lines suppress a violation, and only one with exactly that
// signature. The file is never written at run time.
type Finding struct {
	Property string
	Sig      string
	Text     string
}

type Findings struct{ list []Finding }

func LoadFindings(path, property string) *Findings {
	fs := &Findings{}
	if path == "" {
		return fs
	}
	f, err := os.Open(path)
	if err != nil {
		return fs
	}
	defer f.Close()
	sc := bufio.NewScanner(f)
	sc.Buffer(make([]byte, 1<<20), 1<<20)
	for sc.Scan() {
		line := strings.TrimSpace(sc.Text())
		if !strings.HasPrefix(line, "finding:") {
			continue
		}
		rest := strings.TrimSpace(strings.TrimPrefix(line, "finding:"))
		fd := Finding{Text: rest}
		for _, w := range strings.Fields(rest) {
			if strings.HasPrefix(w, "property=") {
				fd.Property = strings.TrimPrefix(w, "property=")
			}
			if strings.HasPrefix(w, "sig=") {
				fd.Sig = strings.TrimPrefix(w, "sig=")
			}
		}
		if fd.Property == property && fd.Sig != "" {
			fs.list = append(fs.list, fd)
		}
	}
	return fs
}

func (fs *Findings) Match(sig string) *Finding {
	for i := range fs.list {
		if fs.list[i].Sig == sig {
			return &fs.list[i]
		}
	}
	return nil
}
