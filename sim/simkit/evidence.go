package simkit

import (
	"encoding/json"
	"os"
	"path/filepath"
	"sort"
)

func writeEvidence(e Engine, opt *Options, all *merged, nViol int, wall float64, known map[string]bool) error {
	if opt.Evidence == "" {
		return nil
	}
	d := e.Describe()
	cov := map[string]interface{}{
		"evaluations":            all.runs,
		"distinct_nontrivial":    len(all.tuples),
		"rule":                   d.Rule,
		"samples":                all.samples,
		"exhaustive":             false,
		"runs":                   all.runs,
		"runs_per_hour":          int64(float64(all.runs) / wall * 3600),
		"seeds":                  map[string]interface{}{"batch_seed": opt.Seed, "run_seed_rule": "splitmix(batch_seed, engine, run_index)", "first_run": 0, "last_run": all.runs - 1, "count": all.runs},
		"distinct_interleavings": len(all.hashes),
		"real_components":        d.Real,
		"simulated_components":   d.Simulated,
		"stubbed_components":     d.Stubbed,
		"workers":                opt.Workers,
		"repo_tree_hash":         opt.TreeHash,
	}
	if len(all.samples) == 0 {
		cov["samples"] = []interface{}{"(no sample captured)"}
	}
	faults := map[string]int64{}
	probes := map[string]int64{}
	other := map[string]int64{}
	for k, v := range all.stats {
		switch {
		case len(k) > 6 && k[:6] == "fault/":
			faults[k[6:]] = v
		case len(k) > 6 && k[:6] == "probe/":
			probes[k[6:]] = v
		default:
			other[k] = v
		}
	}
	cov["fault_counts"] = faults
	cov["probes"] = probes
	var zero []string
	for k, v := range probes {
		if v == 0 {
			zero = append(zero, k)
		}
	}
	sort.Strings(zero)
	cov["probes_at_zero"] = zero
	cov["counters"] = other
	cov["maxima"] = all.max
	if ls, ok := all.stats["logical_steps"]; ok {
		cov["logical_steps"] = ls
		cov["simulated_time"] = "logical steps (yield points passed); the system reads no clock"
	}
	for k, v := range d.Extra {
		cov[k] = v
	}
	var kf []string
	for k := range known {
		kf = append(kf, k)
	}
	sort.Strings(kf)
	cov["known_findings_printed"] = kf
	if ex, ok := e.(EvidenceExtra); ok {
		ex.Finish(all.stats, all.max, cov)
	}
	ev := map[string]interface{}{
		"property_id": e.ID(),
		"tier":        opt.Tier,
		"seed":        int64(opt.Seed & (1<<62 - 1)),
		"level":       d.Level,
		"coverage":    cov,
		"assumptions": d.Assumptions,
		"wall_s":      wall,
		"violations":  nViol,
	}
	b, err := json.MarshalIndent(ev, "", " ")
	if err != nil {
		return err
	}
	os.MkdirAll(filepath.Dir(opt.Evidence), 0o755)
	return os.WriteFile(opt.Evidence, b, 0o644)
}
