package simkit

import (
	"sort"
	"time"

	vs "github.com/peterstace/simplefeatures/verifsim"
)

func cloneTrace(t vs.Trace) vs.Trace {
	out := vs.Trace{}
	for k, v := range t {
		out[k] = append([]vs.Entry(nil), v...)
	}
	return out
}

func traceLen(t vs.Trace) int {
	n := 0
	for _, v := range t {
		n += len(v)
	}
	return n
}

func traceSum(t vs.Trace) (s float64) {
	for _, v := range t {
		for _, e := range v {
			s += float64(e.V)
		}
	}
	return
}

// Shrink minimises a choice trace, Hypothesis-style: a candidate is replayed
// leniently (labels ignored, values reduced into range, exhausted stream => 0)
// and kept if test reports the same violation; test returns the re-recorded
// (exact) trace of the candidate, which becomes the new current trace.
func Shrink(tr vs.Trace, test func(vs.Trace) (bool, vs.Trace), deadline time.Time) vs.Trace {
	cur := cloneTrace(tr)
	try := func(cand vs.Trace) bool {
		if time.Now().After(deadline) {
			return false
		}
		ok, canon := test(cand)
		if !ok {
			return false
		}
		// accept only a strict improvement in (length, sum of values)
		if !(traceLen(canon) < traceLen(cur) || (traceLen(canon) == traceLen(cur) && traceSum(canon) < traceSum(cur))) {
			return false
		}
		cur = cloneTrace(canon)
		return true
	}
	names := func() []string {
		var ns []string
		for k := range cur {
			ns = append(ns, k)
		}
		sort.Strings(ns)
		return ns
	}
	for pass := 0; pass < 8; pass++ {
		if time.Now().After(deadline) {
			break
		}
		before := traceLen(cur)
		beforeSum := traceSum(cur)
		// 1. drop whole task streams' tails, then chunks
		for _, name := range names() {
			if name != "main" {
				cand := cloneTrace(cur)
				delete(cand, name)
				try(cand)
			}
		}
		for _, name := range names() {
			for size := len(cur[name]); size >= 1; size /= 2 {
				for start := 0; start+size <= len(cur[name]); {
					cand := cloneTrace(cur)
					s := cand[name]
					cand[name] = append(append([]vs.Entry(nil), s[:start]...), s[start+size:]...)
					if !try(cand) {
						start += size
					}
					if time.Now().After(deadline) {
						return cur
					}
				}
			}
		}
		// 2. zero spans of values, then individual values, then lower them
		for _, name := range names() {
			for size := len(cur[name]); size >= 1; size /= 2 {
				for start := 0; start+size <= len(cur[name]); start += size {
					nz := false
					for _, e := range cur[name][start : start+size] {
						if e.V != 0 {
							nz = true
						}
					}
					if !nz {
						continue
					}
					cand := cloneTrace(cur)
					for i := start; i < start+size; i++ {
						cand[name][i].V = 0
					}
					try(cand)
					if time.Now().After(deadline) {
						return cur
					}
				}
			}
		}
		for _, name := range names() {
			for i := 0; i < len(cur[name]); i++ {
				v := cur[name][i].V
				if v == 0 {
					continue
				}
				// binary search towards 0
				lo, hi := uint64(0), v
				for lo < hi {
					if time.Now().After(deadline) {
						return cur
					}
					mid := lo + (hi-lo)/2
					cand := cloneTrace(cur)
					if i >= len(cand[name]) {
						break
					}
					cand[name][i].V = mid
					if try(cand) {
						if i >= len(cur[name]) {
							break
						}
						hi = cur[name][i].V
						if hi > mid {
							hi = mid
						}
					} else {
						lo = mid + 1
					}
				}
			}
		}
		if traceLen(cur) == before && traceSum(cur) == beforeSum {
			break
		}
	}
	return cur
}

// ShrinkBytes minimises a byte string with delta debugging: remove chunks,
// then zero bytes, while test keeps reporting the same failure.
func ShrinkBytes(in []byte, test func([]byte) bool, deadline time.Time) []byte {
	cur := append([]byte(nil), in...)
	try := func(c []byte) bool {
		if time.Now().After(deadline) {
			return false
		}
		if test(c) {
			cur = append([]byte(nil), c...)
			return true
		}
		return false
	}
	for pass := 0; pass < 6; pass++ {
		before := len(cur)
		changed := false
		for size := len(cur); size >= 1; size /= 2 {
			for start := 0; start+size <= len(cur); {
				c := append(append([]byte(nil), cur[:start]...), cur[start+size:]...)
				if !try(c) {
					start += size
				} else {
					changed = true
				}
				if time.Now().After(deadline) {
					return cur
				}
			}
		}
		for i := 0; i < len(cur); i++ {
			if cur[i] == 0 {
				continue
			}
			c := append([]byte(nil), cur...)
			c[i] = 0
			if try(c) {
				changed = true
			}
			if time.Now().After(deadline) {
				return cur
			}
		}
		if len(cur) == before && !changed {
			break
		}
	}
	return cur
}
