package simkit

import (
	"bufio"
	"encoding/binary"
	"encoding/json"
	"fmt"
	"os"
	"runtime/pprof"
	"sort"
	"syscall"

	vs "github.com/peterstace/simplefeatures/verifsim"
)

// Inflight is a small shared file the worker keeps up to date with what it is
// about to execute, so that the supervisor can tell what killed it.
type Inflight struct {
	mem []byte
}

const inflightSize = 8 + 4 + 192<<10

var inflight *Inflight

func openInflight(path string, create bool) (*Inflight, error) {
	flags := os.O_RDWR
	if create {
		flags |= os.O_CREATE | os.O_TRUNC
	}
	f, err := os.OpenFile(path, flags, 0o644)
	if err != nil {
		return nil, err
	}
	defer f.Close()
	if create {
		if err := f.Truncate(inflightSize); err != nil {
			return nil, err
		}
	}
	mem, err := syscall.Mmap(int(f.Fd()), 0, inflightSize, syscall.PROT_READ|syscall.PROT_WRITE, syscall.MAP_SHARED)
	if err != nil {
		return nil, err
	}
	return &Inflight{mem}, nil
}

// MarkRun records the run index about to execute.
func MarkRun(idx int64) {
	if inflight != nil {
		binary.LittleEndian.PutUint64(inflight.mem[0:], uint64(idx))
		binary.LittleEndian.PutUint32(inflight.mem[8:], 0)
	}
}

// MarkPayload records an engine-specific description of the step about to
// execute inside the current run (C08: decoder id + input bytes).
func MarkPayload(p []byte) {
	if inflight != nil {
		if len(p) > inflightSize-12 {
			p = p[:inflightSize-12]
		}
		binary.LittleEndian.PutUint32(inflight.mem[8:], uint32(len(p)))
		copy(inflight.mem[12:], p)
	}
}

func (in *Inflight) read() (idx int64, payload []byte) {
	idx = int64(binary.LittleEndian.Uint64(in.mem[0:]))
	n := binary.LittleEndian.Uint32(in.mem[8:])
	if int(n) > inflightSize-12 {
		n = 0
	}
	payload = append([]byte(nil), in.mem[12:12+n]...)
	return
}

const maxSamplesPerBatch = 3

// WorkerMain serves requests on stdin until EOF or quit.
func WorkerMain(e Engine) {
	if p := os.Getenv("VERIF_CPUPROFILE"); p != "" {
		f, _ := os.Create(fmt.Sprintf("%s.%d", p, os.Getpid()))
		pprof.StartCPUProfile(f)
		defer pprof.StopCPUProfile()
	}
	if p := os.Getenv("VERIF_INFLIGHT"); p != "" {
		var err error
		if inflight, err = openInflight(p, false); err != nil {
			fmt.Fprintln(os.Stderr, "worker: inflight:", err)
			os.Exit(2)
		}
	}
	in := bufio.NewReaderSize(os.Stdin, 1<<20)
	out := bufio.NewWriterSize(os.Stdout, 1<<20)
	enc := json.NewEncoder(out)
	dec := json.NewDecoder(in)
	for {
		var req Request
		if err := dec.Decode(&req); err != nil {
			return
		}
		switch req.Kind {
		case "quit":
			return
		case "batch":
			resp := runBatch(e, &req)
			if err := enc.Encode(resp); err != nil {
				os.Exit(2)
			}
			out.Flush()
		case "payload":
			MarkRun(req.Idx)
			var r *RunResult
			if pr, ok := e.(PayloadRunner); ok {
				r = pr.RunPayload(req.Payload)
			} else {
				r = &RunResult{Invalid: "engine has no payload runner"}
			}
			if err := enc.Encode(&Response{Kind: "payload", Idx: req.Idx, Result: r}); err != nil {
				os.Exit(2)
			}
			out.Flush()
		case "replay":
			MarkRun(req.Idx)
			var src *vs.Source
			if req.Trace != nil {
				src = vs.NewReplaySource(req.Seed, req.Trace, req.Strict)
			} else {
				src = vs.NewSource(req.Seed)
			}
			r := e.Run(src, req.Tier, req.Idx)
			resp := &Response{Kind: "replay", Idx: req.Idx, Result: r, Trace: src.Trace(), Invalid: src.Invalid()}
			if err := enc.Encode(resp); err != nil {
				os.Exit(2)
			}
			out.Flush()
		}
	}
}

func runBatch(e Engine, req *Request) *Response {
	resp := &Response{Kind: "batch", Stats: map[string]int64{}, Max: map[string]int64{}}
	tuples := map[string]struct{}{}
	hashes := map[uint64]struct{}{}
	for idx := req.Start; idx < req.End; idx++ {
		MarkRun(idx)
		seed := RunSeed(req.BatchSeed, e.ID(), idx)
		src := vs.NewSource(seed)
		r := e.Run(src, req.Tier, idx)
		resp.Runs++
		for k, v := range r.Stats {
			resp.Stats[k] += v
		}
		for k, v := range r.Max {
			if v > resp.Max[k] {
				resp.Max[k] = v
			}
		}
		for _, t := range r.Tuples {
			tuples[t] = struct{}{}
		}
		for _, h := range r.Hashes {
			hashes[h] = struct{}{}
		}
		if len(r.Violations) > 0 {
			if len(resp.Found) < 20 {
				resp.Found = append(resp.Found, Found{Idx: idx, Seed: seed, V: r.Violations, Trace: src.Trace(), Sample: r.Sample})
			} else {
				resp.Stats["violations_dropped"]++
			}
		} else if len(resp.Samples) < maxSamplesPerBatch && r.Sample != nil && (idx-req.Start)%7 == 0 {
			resp.Samples = append(resp.Samples, r.Sample)
		}
	}
	for t := range tuples {
		resp.Tuples = append(resp.Tuples, t)
	}
	sort.Strings(resp.Tuples)
	for h := range hashes {
		resp.Hashes = append(resp.Hashes, h)
	}
	sort.Slice(resp.Hashes, func(i, j int) bool { return resp.Hashes[i] < resp.Hashes[j] })
	return resp
}
