module verifsim.local/sim

go 1.23

require github.com/peterstace/simplefeatures v0.0.0

replace github.com/peterstace/simplefeatures => /repo
