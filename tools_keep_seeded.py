#!/usr/bin/env python3
"""Copies a confirmed sub-agent mutant into /verif/seeded/<id>/ with a meta.json that records
what was verified and which check catches it. usage: tools_keep_seeded.py <mutant dir> <id> <prop> <sig> <note>"""
import json, os, shutil, sys
src, mid, prop, sig, note = sys.argv[1:6]
dst = '/verif/seeded/' + mid
os.makedirs(dst, exist_ok=True)
shutil.copy(src + '/patch.diff', dst + '/patch.diff')
for f in ('demo_test.go',):
    if os.path.exists(src + '/' + f): shutil.copy(src + '/' + f, dst + '/' + f)
if os.path.isdir(src + '/demo'): shutil.copytree(src + '/demo', dst + '/demo', dirs_exist_ok=True)
m = json.load(open(src + '/meta.json'))
meta = {
 'id': mid, 'property': prop,
 'summary': m.get('summary'),
 'files_touched': m.get('files_touched'),
 'needs_to_manifest': m.get('needs_to_manifest'),
 'demo_cmd_as_given_by_author': m.get('demo_cmd'),
 'origin': 'written by an independent sub-agent that saw only the property text and its own scratch worktree of /repo',
 'confirmed_by_me': 'tools_verify_seeded.sh in a fresh scratch worktree of /repo HEAD: demonstration passes on the clean tree; with patch.diff applied the repository tests (go test -vet=off ./geom ./rtree ./carto) still pass and the demonstration fails',
 'check_run': 'VERIF_REPO=<scratch worktree with the patch> ./check %s quick' % prop,
 'caught': sig != 'MISSED',
 'violation_signature': sig,
 'note': note,
}
json.dump(meta, open(dst + '/meta.json', 'w'), indent=1)
print('kept', mid)
