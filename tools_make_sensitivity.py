#!/usr/bin/env python3
"""Generates /verif/sensitivity/*.diff: the planned sensitivity mutants of DESIGN.md
sections 3.1, 3.2.8 and 3.3 (deliberate breakages, applied only to scratch worktrees)
plus benign changes that must stay quiet. Usage: tools_make_sensitivity.py <clean worktree>"""
import subprocess, sys, os, json
wt = sys.argv[1]
out = '/verif/sensitivity'
M = []  # (name, property, expect, file, old, new)
def m(name, prop, expect, file, old, new): M.append((name, prop, expect, file, old, new))

# ---- C10 order dependence
m('c10-no-sort-linestrings', 'C10', 'caught', 'geom/dcel_extract_geometry.go',
'''	sort.Slice(lss, func(i, j int) bool {
		seqI := lss[i].Coordinates()
		seqJ := lss[j].Coordinates()
		return seqI.less(seqJ)
	})
	return lss''', '	return lss')
m('c10-no-sort-polygons', 'C10', 'caught', 'geom/dcel_extract_geometry.go',
'''	sort.Slice(polys, func(i, j int) bool {
		seqI := polys[i].ExteriorRing().Coordinates()
		seqJ := polys[j].ExteriorRing().Coordinates()
		return seqI.less(seqJ)
	})
	return polys, nil''', '	return polys, nil')
m('c10-no-ring-rotation', 'C10', 'caught', 'geom/dcel_extract_geometry.go',
'''	rotateSeqs(seqs, len(seqs)-minI)
''', '''	_ = minI
''')
m('c10-inner-rings-arrival-order', 'C10', 'caught', 'geom/dcel_extract_geometry.go',
'''	inners := rings[1:]
	sort.Slice(inners, func(i, j int) bool {
		seqI := inners[i].Coordinates()
		seqJ := inners[j].Coordinates()
		return seqI.less(seqJ)
	})
}''', '''}''')
m('c10-vertex-location-incident-first', 'C10', 'caught', 'geom/dcel_extract_intersection_matrix.go',
'''	if v.locations[operand].boundary {
		return imBoundary
	}
	if v.locations[operand].interior {
		return imInterior
	}

''', '''	if !v.locations[operand].boundary {
		// "fast path": an incident edge already knows the answer
		for e := range v.incidents {
			return e.location(operand)
		}
	}
	if v.locations[operand].boundary {
		return imBoundary
	}
	if v.locations[operand].interior {
		return imInterior
	}

''')
# ---- C10 purity / aliasing
m('c10-dumprings-internal-slice', 'C10', 'caught', 'geom/type_polygon.go',
'''	tmp := make([]LineString, len(p.rings))
	copy(tmp, p.rings)
	return tmp''', '''	return p.rings''')
m('c10-multipoint-dump-internal-slice', 'C10', 'caught', 'geom/type_multi_point.go',
'''	pts := make([]Point, len(m.points))
	copy(pts, m.points)
	return pts''', '''	return m.points''')
m('c10-newpolygon-no-copy-when-same-ctype', 'C10', 'caught', 'geom/type_polygon.go',
'''	rings = append([]LineString(nil), rings...)
	for i := range rings {
		rings[i] = rings[i].ForceCoordinatesType(ctype)
	}
	return Polygon{rings, ctype}''', '''	same := true
	for _, r := range rings {
		if r.CoordinatesType() != ctype {
			same = false
		}
	}
	if !same {
		rings = append([]LineString(nil), rings...)
		for i := range rings {
			rings[i] = rings[i].ForceCoordinatesType(ctype)
		}
	}
	return Polygon{rings, ctype}''')
m('c10-sequence-reverse-in-place', 'C10', 'caught', 'geom/type_sequence.go',
'''	reversed := make([]float64, len(s.floats))
	for i := 0; i < n; i++ {
		j := n - i - 1
		copy(
			reversed[i*stride:(i+1)*stride],
			s.floats[j*stride:(j+1)*stride],
		)
	}
	return Sequence{s.ctype, reversed}''', '''	reversed := s.floats
	tmp := make([]float64, stride)
	for i := 0; i < n/2; i++ {
		j := n - i - 1
		copy(tmp, reversed[i*stride:(i+1)*stride])
		copy(reversed[i*stride:(i+1)*stride], reversed[j*stride:(j+1)*stride])
		copy(reversed[j*stride:(j+1)*stride], tmp)
	}
	return Sequence{s.ctype, reversed}''')
m('c10-wkb-linestring-alias-input', 'C10', 'caught', 'geom/wkb_parser.go',
'''	p.body = p.body[8*len(floats):]
	copy(floats, bytesAsFloats(seqData))
''', '''	p.body = p.body[8*len(floats):]
	if p.no && len(seqData) > 0 && uintptr(unsafe.Pointer(&seqData[0]))%8 == 0 {
		floats = bytesAsFloats(seqData)
	} else {
		copy(floats, bytesAsFloats(seqData))
	}
''')
# ---- C10 shared state
m('c10-appendfloat-global-scratch', 'C10', 'caught', 'geom/float_helpers.go',
'''func appendFloat(dst []byte, f float64) []byte {
	return strconv.AppendFloat(dst, f, 'f', -1, 64)
}''', '''var floatScratch [32]byte

func appendFloat(dst []byte, f float64) []byte {
	b := strconv.AppendFloat(floatScratch[:0], f, 'f', -1, 64)
	return append(dst, b...)
}''')
m('c10-prioritysearch-queue-in-tree', 'C10', 'caught', 'rtree/nearest.go',
'''	queue := entriesQueue{origin: box}
''', '''	t.scratch = t.scratch[:0]
	queue := entriesQueue{origin: box, entries: t.scratch}
	defer func() { t.scratch = queue.entries[:0] }()
''')
# ---- C10 must stay quiet
m('c10-quiet-sort-stable', 'C10', 'quiet', 'geom/dcel_extract_geometry.go',
'''	sort.Slice(lss, func(i, j int) bool {''', '''	sort.SliceStable(lss, func(i, j int) bool {''')
# ---- C11
m('c11-strict-overlap', 'C11', 'caught', 'rtree/box.go',
'''		(box1.MinX <= box2.MaxX) && (box1.MaxX >= box2.MinX) &&''', '''		(box1.MinX < box2.MaxX) && (box1.MaxX > box2.MinX) &&''')
m('c11-stop-compared-with-eq', 'C11', 'caught', 'rtree/nearest.go',
'''				if errors.Is(err, Stop) {
					return nil
				}
				return err''', '''				if err == Stop || (false && errors.Is(err, Stop)) { //nolint:errorlint
					return nil
				}
				return err''')
m('c11-error-rewrapped', 'C11', 'caught', 'rtree/rtree.go',
'''	if err := recurse(t.root); err != nil && !errors.Is(err, Stop) {
		return err
	}''', '''	if err := recurse(t.root); err != nil && !errors.Is(err, Stop) {
		return fmt.Errorf("range search: %w", err)
	}''')
m('c11-parent-box-first-child-only', 'C11', 'caught', 'rtree/bulk.go',
'''		root.entries[i].box = calculateBound(child)''', '''		root.entries[i].box = child.entries[0].box''')
m('c11-split-overlapping-halves', 'C11', 'caught', 'rtree/bulk.go',
'''	return items[:split], items[split:]''', '''	if len(items) > 16 && len(items)%7 == 0 {
		return items[:split+1], items[split:]
	}
	return items[:split], items[split:]''')
m('c11-extent-first-entry', 'C11', 'caught', 'rtree/rtree.go',
'''	return calculateBound(t.root), true''', '''	return t.root.entries[0].box, true''')
m('c11-priority-centre-distance', 'C11', 'caught', 'rtree/box.go',
'''	dx := fastMax(0, fastMax(b1.MinX-b2.MaxX, b2.MinX-b1.MaxX))
	dy := fastMax(0, fastMax(b1.MinY-b2.MaxY, b2.MinY-b1.MaxY))''', '''	dx := (b1.MinX + b1.MaxX - b2.MinX - b2.MaxX) / 2
	dy := (b1.MinY + b1.MaxY - b2.MinY - b2.MaxY) / 2''')
m('c11-quiet-different-split', 'C11', 'quiet', 'rtree/bulk.go',
'''	split := len(items) / 2
''', '''	split := (len(items) + 1) / 2
''')
m('c11-quiet-pivot-rule', 'C11', 'quiet', 'rtree/bulk.go',
'''		rndState = 1664525*rndState + 1013904223''', '''		rndState = 22695477*rndState + 1''')
# ---- C08
m('c08-no-length-guard-uint32', 'C08', 'caught', 'geom/wkb_parser.go',
'''	if len(p.body) < 4 {
		return 0, wkbSyntaxError{"unexpected EOF"}
	}

	var x uint32''', '''	if len(p.body) < 1 {
		return 0, wkbSyntaxError{"unexpected EOF"}
	}

	var x uint32''')
m('c08-geojson-one-element-position', 'C08', 'caught', 'geom/geojson_unmarshal.go',
'''		n := len(node.coords)
		hasLength[n] = true
		if n == 1 {
			return geojsonInvalidCoordinatesLengthError(n)
		}
		return nil''', '''		n := len(node.coords)
		hasLength[n] = true
		return nil''')
m('c08-twkb-skip-validate', 'C08', 'caught', 'geom/twkb_parser.go',
'''	if len(nv) == 0 {
		if err := g.Validate(); err != nil {
			return Geometry{}, err
		}
	}
	return g, nil
}

// UnmarshalTWKBIDList''', '''	if len(nv) == 0 && !g.IsPolygon() {
		if err := g.Validate(); err != nil {
			return Geometry{}, err
		}
	}
	return g, nil
}

// UnmarshalTWKBIDList''')
m('c08-twkb-ring-close-without-guard', 'C08', 'caught', 'geom/twkb_parser.go',
'''		if numPoints >= 2 {''', '''		if numPoints >= 0 {''')
m('c08-quiet-error-message', 'C08', 'quiet', 'geom/wkb_parser.go',
'''		return wkbSyntaxError{fmt.Sprintf("invalid byte order: %#x", b)}''', '''		return wkbSyntaxError{fmt.Sprintf("bad byte order marker %d", b)}''')

# ---- benign changes that touch the seams (must stay quiet)
m('c10-quiet-correct-sync-pool', 'C10', 'quiet', 'geom/float_helpers.go',
'''func appendFloat(dst []byte, f float64) []byte {
	return strconv.AppendFloat(dst, f, 'f', -1, 64)
}''', '''var floatBufPool = sync.Pool{New: func() interface{} { b := make([]byte, 0, 32); return &b }}

func appendFloat(dst []byte, f float64) []byte {
	bp := floatBufPool.Get().(*[]byte)
	b := strconv.AppendFloat((*bp)[:0], f, 'f', -1, 64)
	dst = append(dst, b...) // copied out before the buffer goes back
	*bp = b[:0]
	floatBufPool.Put(bp)
	return dst
}''')
m('c10-quiet-correct-locked-cache', 'C10', 'quiet', 'geom/alg_intersects.go',
'''	bulk := make([]rtree.BulkItem, len(lines1))
	for i, ln := range lines1 {
		bulk[i] = rtree.BulkItem{
			Box:      ln.box(),
			RecordID: i,
		}
	}
	tree := rtree.BulkLoad(bulk)
''', '''	tree := cachedLineIndex(lines1)
''')
m('c10-quiet-deterministic-goroutines', 'C10', 'quiet', 'geom/type_multi_polygon.go',
'''	var (
		bestWidth float64
		bestPoint Point
	)
	for i := 0; i < m.NumPolygons(); i++ {
		poly := m.PolygonN(i)
		point, bisectorWidth := pointOnAreaSurface(poly)
		if point.IsEmpty() {
			continue
		}
		if bisectorWidth > bestWidth {
			bestWidth = bisectorWidth
			bestPoint = point
		}
	}
	return bestPoint''', '''	n := m.NumPolygons()
	points := make([]Point, n)
	widths := make([]float64, n)
	if n >= 32 {
		// large inputs: compute per-polygon candidates in parallel, merge in index order
		var wg sync.WaitGroup
		for w := 0; w < 4; w++ {
			wg.Add(1)
			go func(w int) {
				defer wg.Done()
				for i := w; i < n; i += 4 {
					points[i], widths[i] = pointOnAreaSurface(m.PolygonN(i))
				}
			}(w)
		}
		wg.Wait()
	} else {
		for i := 0; i < n; i++ {
			points[i], widths[i] = pointOnAreaSurface(m.PolygonN(i))
		}
	}
	var (
		bestWidth float64
		bestPoint Point
	)
	for i := 0; i < n; i++ {
		if points[i].IsEmpty() {
			continue
		}
		if widths[i] > bestWidth {
			bestWidth = widths[i]
			bestPoint = points[i]
		}
	}
	return bestPoint''')
m('c11-quiet-iterative-rangesearch', 'C11', 'quiet', 'rtree/rtree.go',
'''	if err := recurse(t.root); err != nil && !errors.Is(err, Stop) {
		return err
	}
	return nil''', '''	_ = recurse
	stack := []*node{t.root} // per call: nothing shared
	type frame struct {
		n *node
		i int
	}
	frames := []frame{{t.root, 0}}
	stack = stack[:0]
	for len(frames) > 0 {
		f := &frames[len(frames)-1]
		if f.i >= f.n.numEntries {
			frames = frames[:len(frames)-1]
			continue
		}
		e := f.n.entries[f.i]
		f.i++
		if !overlap(e.box, box) {
			continue
		}
		if e.child == nil {
			if err := callback(e.recordID); err != nil {
				if errors.Is(err, Stop) {
					return nil
				}
				return err
			}
		} else {
			frames = append(frames, frame{e.child, 0})
		}
	}
	return nil''')

os.makedirs(out, exist_ok=True)
index = []
for name, prop, expect, file, old, new in M:
    path = os.path.join(wt, file)
    s = open(path).read()
    if old not in s:
        print('SKIP (pattern not found):', name); continue
    s2 = s.replace(old, new, 1)
    extra = ''
    if name == 'c10-prioritysearch-queue-in-tree':
        r = open(os.path.join(wt, 'rtree/rtree.go')).read()
        open(os.path.join(wt, 'rtree/rtree.go'), 'w').write(r.replace('''	root  *node
	count int
}''', '''	root    *node
	count   int
	scratch []*entry
}''').replace('	return &RTree{root, len(items)}','	return &RTree{root: root, count: len(items)}'))
        b = open(os.path.join(wt, 'rtree/bulk.go')).read()
        open(os.path.join(wt, 'rtree/bulk.go'), 'w').write(b.replace('	return &RTree{root, len(items)}','	return &RTree{root: root, count: len(items)}'))
    if name == 'c10-quiet-correct-sync-pool':
        s2 = s2.replace('import (\n\t"math"\n\t"strconv"\n)', 'import (\n\t"math"\n\t"strconv"\n\t"sync"\n)')
    if name == 'c10-quiet-deterministic-goroutines':
        s2 = s2.replace('\t"fmt"\n\t"unsafe"\n', '\t"fmt"\n\t"sync"\n\t"unsafe"\n')
    if name == 'c10-quiet-correct-locked-cache':
        s2 = s2.replace('import (\n\t"fmt"\n', 'import (\n\t"fmt"\n\t"sync"\n')
        s2 += '''

// lineIndexCache remembers the most recently built line index; the key is the
// complete list of lines (compared element by element), so a hit is always for
// identical input. The tree is read-only once built.
var lineIndexCache struct {
	mu    sync.Mutex
	lines []line
	tree  *rtree.RTree
}

func cachedLineIndex(lines []line) *rtree.RTree {
	c := &lineIndexCache
	c.mu.Lock()
	defer c.mu.Unlock()
	if c.tree != nil && len(c.lines) == len(lines) {
		same := true
		for i := range lines {
			if lines[i] != c.lines[i] {
				same = false
				break
			}
		}
		if same {
			return c.tree
		}
	}
	bulk := make([]rtree.BulkItem, len(lines))
	for i, ln := range lines {
		bulk[i] = rtree.BulkItem{Box: ln.box(), RecordID: i}
	}
	c.lines = append([]line(nil), lines...)
	c.tree = rtree.BulkLoad(bulk)
	return c.tree
}
'''
    if name == 'c11-error-rewrapped':
        s2 = s2.replace('import (\n\t"errors"\n)', 'import (\n\t"errors"\n\t"fmt"\n)')
    open(path, 'w').write(s2)
    subprocess.run(['gofmt', '-w', path], cwd=wt)
    d = subprocess.run(['git', 'diff'], cwd=wt, capture_output=True, text=True).stdout
    open(os.path.join(out, name + '.diff'), 'w').write(d)
    subprocess.run(['git', 'checkout', '--', '.'], cwd=wt)
    index.append({'name': name, 'property': prop, 'expect': expect})
    print('ok', name)
json.dump(index, open(os.path.join(out, 'index.json'), 'w'), indent=1)
