#!/usr/bin/env python3
# Regenerates MANIFEST.json (kept under version control; run by hand after editing).
import json
na = {
 "C01": "Union/Intersection/Difference/SymmetricDifference are pure functions of their arguments: whether the answer is the set-theoretic one is a question about inputs, with no schedule, fault or history in it (DESIGN.md section 4). Order- and schedule-independence of the answer is decided under C10.",
 "C02": "Relate and the named predicates are pure functions of an input pair; correctness of the DE-9IM matrix needs an input-space oracle, not a simulator. Order/schedule independence is decided under C10.",
 "C03": "Validate is a pure predicate on one geometry; its blind spots are input configurations. No schedule, clock, fault or interleaving is involved.",
 "C04": "WKB encode/decode round trip is a pure bijection over geometries x byte orders; nothing concurrent, timed or faulty. (Fault behaviour of the decoder is C08.)",
 "C05": "WKT print/parse round trip is a pure function of a geometry or a string.",
 "C06": "GeoJSON marshal/unmarshal round trip is a pure function of one document.",
 "C07": "TWKB rounding, delta state and header truthfulness live inside one pure call over geometry x options; no interleaving exists to explore.",
 "C09": "Intersects and Distance are pure functions of a pair; agreement with exact geometry is an input-space oracle question.",
 "C12": "Envelope tightness and interval algebra are pure arithmetic identities over inputs.",
 "C13": "Convex hull minimality and rotated-rectangle optimality are pure functions of a point multiset.",
 "C14": "Area, Length and Centroid are pure numeric functions of one geometry.",
 "C15": "Boundary and PointOnSurface are pure functions of one geometry.",
 "C16": "Coordinate-type propagation is a structural invariant of pure constructors and transforms over inputs x target types.",
 "C17": "Densify/Simplify/Interpolate/SnapToGrid contracts relate a pure function's output to its input and parameters.",
 "C18": "ExactEquals is a pure relation on pairs of inputs.",
 "C19": "Map projections are closed-form float functions of (configuration, point); carto has nothing concurrent, timed or faulty.",
 "C20": "Totality on empty and zero-value geometries is a sweep over method x argument shape, i.e. inputs; a nil dereference there is deterministic.",
}
checks = []
def add(pid, level, text, note, technique, ref):
    checks.append({
      "property_id": pid,
      "quick_cmd": "./check %s quick" % pid,
      "thorough_cmd": "./check %s thorough" % pid,
      "evidence_file": "evidence/%s.json" % pid,
      "replay_cmd_template": "./check %s --replay {path}" % pid,
      "engine": pid.lower(),
      "level_claimed": {"category": level, "text": text, "design_ref": ref},
      "level_note": note,
      "technique": technique,
    })
import os
if os.path.exists('/verif/sim/cmd/c08/main.go') and os.environ.get('WITH_C08','1')=='1' and os.path.getsize('/verif/sim/cmd/c08/main.go')>0:
    add("C08","fault_enumeration",
     "Writer -> simulated storage medium -> reader: real encoders write a seeded corpus (plus wide documents of up to 4000 tiny members, grammar-generated and foreign-producer documents), the medium injects truncation, torn/lost/misdirected/duplicated sectors, bit rot, count/varint/type/ordinate field smashes, splices, token-level faults, hex text, deep nesting, and recycles its buffer after the read; every real decoder reads the result from read-only memory in a sacrificial worker under a 4 GiB address-space ceiling, an allocation meter and a logical step budget, and what it returns is validated and re-encoded. Single faults are enumerated completely for records <= 512 bytes (thorough); larger records and fault sequences are sampled.",
     "Trusted: the harness's structural scanners and lexer, the allocation bound constants (policy, stated in evidence with the measured worst ratio), Go runtime accounting (TotalAlloc). Coverage-guided mutation is not done.",
     "deterministic simulation of a faulty storage medium between real encoders and real decoders; complete single-fault enumeration + seeded fault sequences; sacrificial workers with RLIMIT_AS", "3.1")
if os.path.exists('/verif/sim/cmd/c10/main.go') and os.path.getsize('/verif/sim/cmd/c10/main.go')>0:
    add("C10","exploration",
     "2-16 simulated caller goroutines share a pool of operands (geometries, sequences, envelopes, R-trees, encoded documents) and drive 410+ operations of the public API under a seeded baton scheduler that decides every interleaving (yield points AST-inserted at every function entry and loop head of geom and rtree), every map iteration order (range-over-map rewritten to a seeded order seam) and every sync.Pool hand-out. Every result is compared bit-for-bit with the same call alone (canonical order), repeated in reverse order, and executed by the un-instrumented library in other processes; operands live in mprotect'ed memory and are re-digested at context switches; caller buffers are reused after calls; a -race build with a detector-invisible baton and park-and-sweep schedules reports data races.",
     "Trusted: the instrumenter's rewrites (cross-checked on every third run against the un-instrumented library in a separate process), the Go race detector (bounded history window and random shadow-cell eviction: reports are confirmed statistically), the reflection-driven operation table (checked against the packages' exported functions). Sampling, not enumeration, of schedules.",
     "deterministic simulation: seeded scheduler over instrumented real code + seeded map-iteration orders + race detector with invisible baton + frozen operand memory", "3.2")
add("C11","exploration",
 "Real rtree code under a seeded scheduler: 1-8 simulated caller goroutines issue scripted searches on a shared bulk-loaded tree; callbacks are the fault seam (Stop, wrapped and joined Stop, error, wrapped error, panic at position k; nested searches; task switches inside callbacks). Every callback history and return value is checked against a linear-scan model. Sizes 0..40 x 15 layouts are enumerated with every abort position and kind; larger trees are sampled up to 5000 items.",
 "Trusted: the linear-scan reference model; exact float arithmetic on integer-times-power-of-two coordinates; the verif-tagged structural hook only steers (adds targeted queries), it does not judge.",
 "deterministic simulation with seeded scheduler and scripted callback faults; histories checked against a linear-scan reference model", "3.3")
claimed = {c["property_id"] for c in checks}
m = {
 "version": 1,
 "setup_cmd": "./setup.sh",
 "hooks": {
   "guard": "verif",
   "enable": "go build -tags verif on a scratch copy of /repo's working tree after sim/cmd/instrument inserted yield points / the map-order seam (see ./check); /repo itself is never modified by a check",
   "baseline_off_cmd": "cd /repo && go test -mod=mod -vet=off -count=1 -timeout 25m ./...",
   "source_commits": open('/verif/HOOK_COMMITS').read().split() if os.path.exists('/verif/HOOK_COMMITS') else [],
   "add_only": True,
 },
 "engines": [
   {"name":"c08","path":"sim/cmd/c08","serves_properties":["C08"],"kind_free_text":"storage-fault simulation between real encoders and decoders, sacrificial workers"},
   {"name":"c10","path":"sim/cmd/c10","serves_properties":["C10"],"kind_free_text":"seeded scheduler + map-order seam over AST-instrumented geom/rtree; plain and -race builds"},
   {"name":"c11","path":"sim/cmd/c11","serves_properties":["C11"],"kind_free_text":"seeded scheduler + scripted callback faults over yield-instrumented rtree"},
 ],
 "checks": checks,
 "notes": "Technique family: deterministic simulation with fault injection. Only C08, C10 and C11 have a schedule, fault sequence or history in their quantifier and a seam in the code; the other 17 properties are pure functions of their inputs and are listed under not_applicable (DESIGN.md sections 1 and 4). Exit codes: 0 held, 1 VIOLATION, 2 machinery trouble (never a VIOLATION line). `./check selftest` proves determinism (same seed => identical choice traces and results in six fresh processes at GOMAXPROCS 1, 4, 16). seeded/ holds 89 independently written changes (of 90 written, 88 end in a VIOLATION with a replay file - including all 9 of a held-out wave run against the frozen checks; one does not break its property; one is not handled), sensitivity/ 31 planned ones (22 breakages caught, 9 benign changes quiet); see DESIGN.md section 9.",
 "not_applicable": [{"property_id":k,"reason":v} for k,v in sorted(na.items())] + [
   {"property_id":k,"reason":"engine under construction in this session; see DESIGN.md section 3"} for k in ("C08","C10") if k not in claimed],
}
json.dump(m, open('/verif/MANIFEST.json','w'), indent=1)
print("claimed:", sorted(claimed))
