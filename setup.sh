#!/bin/bash
# Offline setup: verify the toolchain and pre-build the instrumenter (warms the build cache).
set -e
export GOFLAGS=-mod=mod GOPROXY=off GOSUMDB=off GOTOOLCHAIN=local CGO_ENABLED=1
cd "$(dirname "$0")/sim"
cp /repo/go.sum . 2>/dev/null || true
mkdir -p /root/scratch
go build -trimpath -o /root/scratch/.verif-instrument ./cmd/instrument
go vet ./cmd/instrument ./simrt
rm -f /root/scratch/.verif-instrument
echo setup ok
