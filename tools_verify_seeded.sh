#!/bin/bash
# Independently confirms a sub-agent's seeded change and runs our check against it.
# usage: tools_verify_seeded.sh <mutant dir (patch.diff, demo_test.go|demo/main.go, meta.json)> <PROP> [label]
# Works in its own scratch worktree of /repo; never touches /repo's working tree.
export GOFLAGS=-mod=mod GOPROXY=off GOSUMDB=off GOTOOLCHAIN=local CGO_ENABLED=1
M="$1"; PROP="$2"; LABEL="${3:-$(basename $(dirname $(dirname "$M")))-$(basename "$M")}"
V="$(cd "$(dirname "$0")" && pwd)"; WT=/root/scratch/wt-seed-$$; OUT=/root/scratch/seed-out-$$; mkdir -p "$OUT"
git -C /repo worktree add -q "$WT" HEAD || exit 2
trap 'git -C /repo worktree remove --force "$WT" 2>/dev/null; rm -rf "$OUT"' EXIT
race=""; grep -q -- "-race" "$M/meta.json" && race="-race"
run_demo() {
  if [ -f "$M/demo_test.go" ]; then
    place=$(head -1 "$M/demo_test.go" | sed -n 's|.*place in: *\([a-z/]*\).*|\1|p'); place=${place%/}
    [ -z "$place" ] && place=geom
    cp "$M/demo_test.go" "$WT/$place/zz_verif_demo_test.go"
    names=$(grep -o '^func Test[A-Za-z0-9_]*' "$M/demo_test.go" | sed 's/func //' | paste -sd'|')
    (cd "$WT" && timeout 900 go test $race -vet=off -count=1 -run "^($names)\$" ./$place) > "$OUT/demo.log" 2>&1; rc=$?
    rm -f "$WT/$place/zz_verif_demo_test.go"
    return $rc
  elif [ -f "$M/demo/main.go" ]; then
    mkdir -p "$WT/zz_verif_demo" && cp "$M"/demo/*.go "$WT/zz_verif_demo/"
    (cd "$WT" && timeout 900 go run $race ./zz_verif_demo) > "$OUT/demo.log" 2>&1; rc=$?
    rm -rf "$WT/zz_verif_demo"
    return $rc
  fi
  echo "no demo" > "$OUT/demo.log"; return 99
}
run_demo; clean_rc=$?
git -C "$WT" apply "$M/patch.diff" || { echo "$LABEL APPLY-FAILED"; exit 2; }
(cd "$WT" && go build ./geom ./rtree ./carto) >/dev/null 2>&1 || { echo "$LABEL DOES-NOT-COMPILE"; exit 2; }
(cd "$WT" && go test -vet=off -count=1 ./geom ./rtree ./carto) > "$OUT/tests.log" 2>&1; tests_rc=$?
run_demo; mut_rc=$?
confirmed=no
if [ $clean_rc -eq 0 ] && [ $tests_rc -eq 0 ] && [ $mut_rc -ne 0 ] && [ $mut_rc -ne 99 ]; then confirmed=yes; fi
t0=$(date +%s)
VERIF_REPO="$WT" VERIF_EVIDENCE_DIR="$OUT" VERIF_REPLAY_DIR="$OUT/replays" "$V/check" "$PROP" "${TIER:-quick}" > "$OUT/check.log" 2>&1; rc=$?
t1=$(date +%s)
sig=$(grep -m1 '^violation:' "$OUT/check.log" | sed 's/.*sig=//' | cut -c1-100)
echo "$LABEL prop=$PROP confirmed=$confirmed (demo clean rc=$clean_rc, existing tests rc=$tests_rc, demo mutated rc=$mut_rc) check rc=$rc $((t1-t0))s sig=$sig"
[ $rc -eq 2 ] && grep -m2 MACHINERY "$OUT/check.log" | cut -c1-400
if [ -n "${KEEP_LOG:-}" ]; then cp "$OUT/check.log" "$KEEP_LOG"; fi
exit 0
