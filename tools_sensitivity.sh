#!/bin/bash
# Applies each patch of a directory (default: sensitivity/) to a scratch worktree of /repo and
# runs the quick check of its property against it. Never touches /repo's working tree.
# usage: tools_sensitivity.sh [dir] [name-filter]
export GOFLAGS=-mod=mod GOPROXY=off GOSUMDB=off GOTOOLCHAIN=local
V="$(cd "$(dirname "$0")" && pwd)"; DIR="${1:-$V/sensitivity}"; FILTER="${2:-}"
WT=/root/scratch/wt-sens-$$; OUT=/root/scratch/sens-out-$$; mkdir -p "$OUT"
git -C /repo worktree add -q "$WT" HEAD || exit 2
trap 'git -C /repo worktree remove --force "$WT"; rm -rf "$OUT"' EXIT
for d in "$DIR"/*.diff; do
  name=$(basename "$d" .diff)
  [ -n "$FILTER" ] && [[ "$name" != *$FILTER* ]] && continue
  prop=$(echo "$name" | cut -c1-3 | tr a-z A-Z)
  expect=caught; [[ "$name" == *quiet* ]] && expect=quiet
  git -C "$WT" checkout -q -- . ; git -C "$WT" apply "$d" || { echo "$name APPLY-FAILED"; continue; }
  tests=pass
  (cd "$WT" && go test -vet=off -count=1 ./geom ./rtree >/dev/null 2>&1) || tests=FAIL
  t0=$(date +%s)
  VERIF_REPO="$WT" VERIF_EVIDENCE_DIR="$OUT" VERIF_REPLAY_DIR="$OUT/replays" "$V/check" "$prop" quick > "$OUT/$name.log" 2>&1; rc=$?
  t1=$(date +%s)
  sig=$(grep -m1 '^violation:' "$OUT/$name.log" | sed 's/.*sig=//' | cut -c1-90)
  verdict=OK
  if [ "$expect" = caught ] && [ $rc -ne 1 ]; then verdict=MISSED; fi
  if [ "$expect" = quiet ] && [ $rc -ne 0 ]; then verdict=FALSE-ALARM; fi
  echo "$name expect=$expect rc=$rc existing-tests=$tests $((t1-t0))s $verdict $sig"
  if [ $rc -eq 2 ]; then grep -m2 MACHINERY "$OUT/$name.log" | cut -c1-300; fi
done
